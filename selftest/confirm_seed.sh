#!/bin/bash
# usage: confirm_seed.sh <PROP> <worktree>   - confirm an independently authored breaking change, then try the check on it.
# Step 1 (in the scratch worktree): patch applies to a clean tree, changed files compile, `make test` passes,
#         demo fails WITH the change and passes WITHOUT it.
# Step 2 (on /repo, reverted straight afterwards): run ./check <PROP>.
set -u
P=$1; WT=$2; OUT=/verif/seeded/$P
[ -f "$WT/seed/patch.diff" ] || { echo "no patch in $WT/seed"; exit 3; }
cd "$WT" || exit 3
git checkout -q -- .   # never `git stash` here: refs/stash is shared by all worktrees of /repo
git apply --check seed/patch.diff || { echo "PATCH DOES NOT APPLY"; exit 3; }
rundemo() { rm -f seed/demo; bash seed/build.sh > "$1" 2>&1; r=$?; if [ $r -eq 0 ] && [ -x seed/demo ] && ! grep -q "seed/demo\b[^.]" seed/build.sh | grep -qv gcc; then :; fi; if [ $r -eq 0 ] && [ -x seed/demo ] && ! grep -Eq "(^|[;&[:space:]])\./seed/demo|&& *seed/demo|\./demo" seed/build.sh; then ./seed/demo >> "$1" 2>&1; r=$?; fi; return $r; }
echo "== without the change"; rundemo seed/.out_without; rc0=$?; echo "demo exit=$rc0"
git apply seed/patch.diff
echo "== with the change"
for f in $(git diff --name-only | grep '\.c$'); do gcc -std=gnu11 -fsyntax-only -w -DLINUX -IlltdResponder "$f" || echo "COMPILE FAIL $f"; done
make test > seed/.make_test 2>&1; mt=$?; echo "make test exit=$mt ($(grep -c '\[       OK \]' seed/.make_test) tests OK)"
rundemo seed/.out_with; rc1=$?; echo "demo exit=$rc1"; tail -3 seed/.out_with | cut -c1-200
rm -rf build
echo "== check on /repo (applied, then reverted)"
cd /repo && [ -z "$(git status --porcelain)" ] || { echo "/repo not clean"; exit 3; }
git apply "$WT/seed/patch.diff"
( cd /verif && LLTD_EVIDENCE_DIR=/tmp/w/ev-seed LLTD_REPLAY_DIR=/tmp/w/rp-seed ./check $P > /tmp/w/seedcheck-$P.out 2>&1; echo "check exit=$?" )
git -C /repo checkout -- . ; [ -z "$(git -C /repo status --porcelain)" ] && echo "/repo reverted clean"
grep -E "VIOLATION|BROKEN|^\s+\S+:\S+ .*\[R" /tmp/w/seedcheck-$P.out | cut -c1-300 | head -6
echo "SUMMARY $P demo_without=$rc0 demo_with=$rc1 make_test=$mt"
