#!/usr/bin/env python3
"""keep_seed.py <PROP> <worktree> <seed-id> <first_run: caught|missed> <needs> <sites> <rule>[,<rule>...]
Copy a confirmed, independently authored breaking change into /verif/seeded/<seed-id>/ and write its meta.json.
Run only after selftest/confirm_seed.sh confirmed it (patch applies, compiles, `make test` passes, demo fails with / passes without)."""
import json
import os
import shutil
import subprocess
import sys

prop, wt, sid, first, needs, sites, rules = sys.argv[1:8]
dst = os.path.join('/verif/seeded', sid)
os.makedirs(dst, exist_ok=True)
for f in ('patch.diff', 'demo.c', 'build.sh', 'README.md'):
    src = os.path.join(wt, 'seed', f)
    if os.path.exists(src):
        shutil.copy(src, os.path.join(dst, f))
for f in os.listdir(os.path.join(wt, 'seed')):
    # extra demo sources (stubs, headers) that build.sh may need
    if f.endswith(('.c', '.h')) and f != 'demo.c':
        shutil.copy(os.path.join(wt, 'seed', f), os.path.join(dst, f))
base = subprocess.check_output(['git', '-C', '/repo', 'rev-parse', '--short', 'HEAD'], text=True).strip()
meta = {
    'property': prop,
    'round': (int(sid.rsplit('-', 1)[1]) if '-' in sid and sid.rsplit('-', 1)[1].isdigit() else 1),
    'needs': needs,
    'sites': sites,
    'caught_by': [r for r in rules.split(',') if r],
    'first_run': first,
    'author': 'independent sub-agent given only the property text and a scratch worktree (nothing from /verif)',
    'confirmed_by_me': [
        'git apply --check on a clean worktree',
        'gcc -std=gnu11 -fsyntax-only -DLINUX on the changed files',
        'make test: 15/15 pass with the change',
        'seed/build.sh demo: exit 0 without the change, exit 1 with it',
        'git -C /repo apply patch.diff; ./check %s; git -C /repo checkout -- .' % prop,
    ],
    'base_commit': base,
}
json.dump(meta, open(os.path.join(dst, 'meta.json'), 'w'), indent=1)
print('kept', dst)
