#!/usr/bin/env python3
"""keep_benign.py <PROP> <worktree> [extra-check ...]
Keep the behaviour-preserving patches of an independent sub-agent (worktree/seed/patchN.diff + README.md) under
/verif/benign/<PROP>/ after selftest/confirm_benign.py ran all 20 checks on them.  meta.json lists the checks the
self-test replays on every run: the property's own check plus any check that ever raised a false alarm on one of them."""
import json, os, shutil, sys
prop, wt = sys.argv[1], sys.argv[2]
extra = [a for a in sys.argv[3:] if not a.startswith('--id=')]
sid = ([a[5:] for a in sys.argv[3:] if a.startswith('--id=')] or [prop])[0]
dst = os.path.join('/verif/benign', sid)
os.makedirs(dst, exist_ok=True)
n = 0
for f in sorted(os.listdir(os.path.join(wt, 'seed'))):
    if (f.startswith('patch') and f.endswith('.diff')) or f == 'README.md':
        shutil.copy(os.path.join(wt, 'seed', f), os.path.join(dst, f))
        n += f.endswith('.diff')
checks = [prop] + [c for c in extra if c != prop]
json.dump({'property': prop, 'checks': checks, 'patches': n,
           'author': 'independent sub-agent given only the property text and a scratch worktree (nothing from /verif)',
           'confirmed_by_me': ['patch applies to the committed tree', 'gcc -fsyntax-only on changed core files', 'make test 15/15',
                               'all 20 quick checks exit 0 on the patched copy (selftest/confirm_benign.py)', 'read the diff: behaviour-preserving']},
          open(os.path.join(dst, 'meta.json'), 'w'), indent=1)
print('kept', dst, n, 'patches; replayed checks:', checks)
