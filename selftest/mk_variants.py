#!/usr/bin/env python3
"""Source of selftest/variants.json (kept as Python for readable multi-line edits)."""
import json, os
HERE = os.path.dirname(os.path.abspath(__file__))
V = []
A = 'lltdResponder/lltdAutomata.c'
B = 'lltdResponder/lltdBlock.c'
W = 'lltdResponder/lltdWire.c'
T = 'lltdResponder/lltdTlvOps.c'
H = 'lltdResponder/lltdAutomata.h'
P = 'lltdResponder/lltdProtocol.h'


def v(id, prop, expect, file, old, new, rule=None, note=''):
    V.append({'id': id, 'property': prop, 'expect': expect, 'rule': rule, 'note': note,
              'edits': [{'file': file, 'old': old, 'new': new}]})


# ---- C14
v('c14-emit-row', 'C14', 'fire', A, "t[7].from = 1; t[7].to = 2;", "t[7].from = 1; t[7].to = 1;", 'R14.1')
v('c14-ge-timeout', 'C14', 'fire', A, "automata *switch_state_mapping(automata *autom, int input, char *debug) {\n    (void)debug;\n    uint8_t new_state = autom->current_state;\n    state *current_state = &autom->states_table[autom->current_state];\n    bool timeout = false;\n\n    uint64_t now = lltd_monotonic_seconds();\n    uint64_t diff = (now - autom->last_ts);\n\n    if (current_state->timeout != 0 && diff > (uint64_t)current_state->timeout) {",
  "automata *switch_state_mapping(automata *autom, int input, char *debug) {\n    (void)debug;\n    uint8_t new_state = autom->current_state;\n    state *current_state = &autom->states_table[autom->current_state];\n    bool timeout = false;\n\n    uint64_t now = lltd_monotonic_seconds();\n    uint64_t diff = (now - autom->last_ts);\n\n    if (current_state->timeout != 0 && diff >= (uint64_t)current_state->timeout) {", 'R14.1')
v('c14-timeout0', 'C14', 'fire', A, "command.timeout = 5;", "command.timeout = 0;", 'R14.2')
v('c14-no-table-clear', 'C14', 'fire', A, "                session_table_clear(sessions);", "                ;", 'R14.3')
v('c14-deadline-300', 'C14', 'fire', A, "lltd_monotonic_seconds() + 30;", "lltd_monotonic_seconds() + 300;", 'R14.4')
v('c14-int8-input', 'C14', 'fire', A, "automata *switch_state_mapping(automata *autom, int input, char *debug) {\n    (void)debug;", "automata *switch_state_mapping(automata *autom, int input8, char *debug) {\n    int input = (int8_t)input8;\n    (void)debug;", 'R14.1',
  'opcode 255 acts as the internal timeout event')
v('c14-benign-while', 'C14', 'silent', A, "    int find = -1;\n    for (int i = 0; i < autom->transitions_no; i++) {\n        if (autom->current_state == autom->transitions_table[i].from &&\n            autom->transitions_table[i].with == input) {\n            new_state = autom->transitions_table[i].to;\n            find = i;\n        }\n    }\n\n    if (autom->current_state != new_state || find >= 0 || timeout) {\n        lltd_port_log_debug(\"%s: Switching from %s with %d%s to %s\",",
  "    int find = -1;\n    int idx = 0;\n    while (idx < autom->transitions_no) {\n        const transition *row = &autom->transitions_table[idx];\n        if (autom->current_state == row->from && row->with == input) {\n            new_state = row->to;\n            find = idx;\n        }\n        idx++;\n    }\n\n    if (autom->current_state != new_state || find >= 0 || timeout) {\n        lltd_port_log_debug(\"%s: Switching from %s with %d%s to %s\",")
# ---- C15
v('c15-drop-fix-row', 'C15', 'fire', A, "    t[16].from = 3; t[16].to = 1; t[16].with = sess_reset;\n", "    t[16].from = 3; t[16].to = 3; t[16].with = sess_reset;\n", 'R15.1')
v('c15-pending-ack', 'C15', 'fire', A, "t[9].from = 2; t[9].to = 3;", "t[9].from = 2; t[9].to = 2;", 'R15.1')
v('c15-timeout0', 'C15', 'fire', A, "complete.timeout = 1;", "complete.timeout = 0;", 'R15.2')
# ---- C13
v('c13-nmax', 'C13', 'fire', H, "#define BAND_NMAX 10000", "#define BAND_NMAX 1000", 'R13.1')
v('c13-floor-div', 'C13', 'fire', A, "        interval_ms += 1;", "        interval_ms += 0;", 'R13.4')
v('c13-plus1', 'C13', 'fire', A, "(uint64_t)BAND_ALPHA * r_pow_beta;", "(uint64_t)BAND_ALPHA * r_pow_beta + 1;", 'R13.1')
v('c13-noclamp', 'C13', 'fire', A, "uint64_t r = (band->r > BAND_NMAX) ? BAND_NMAX : band->r;", "uint64_t r = band->r;", 'R13.2')
v('c13-32bit', 'C13', 'fire', A, "        uint64_t new_ni = (uint64_t)BAND_ALPHA * r_pow_beta;", "        uint32_t new_ni = BAND_ALPHA * (uint32_t)r_pow_beta;", 'R13')
# ---- C05
v('c05-quick-reset-keeps', 'C05', 'fire', B, "                case opcode_reset:\n                    st->mapper_known = 0;\n                    st->mapper_gen_quick = 0;", "                case opcode_reset:\n                    st->mapper_gen_quick = 0;", 'R05.3')
v('c05-prestep-eth-src', 'C05', 'fire', B, "        if (!mapper_matches(st, &header->realSource)) {\n            return;\n        }", "        if (!mapper_matches(st, &header->frameHeader.source)) {\n            return;\n        }", 'R05.2')
v('c05-match-apparent', 'C05', 'fire', B, "    return compareEthernetAddress(&st->mapper_real, real_src);", "    return compareEthernetAddress(&st->mapper_apparent, real_src);", 'R05.2')
v('c05-prestep-any-tos', 'C05', 'fire', B, "    if (header->opcode == opcode_discover &&\n        (header->tos == tos_discovery || header->tos == tos_quick_discovery)) {", "    if (header->opcode == opcode_discover) {", 'R05.1')
v('c05-benign-drop-second-check', 'C05', 'silent', B, "                case opcode_discover:\n                    if (mapper_matches(st, &header->realSource)) {\n                        answerHello(frame, st, iface_ctx);\n                    }", "                case opcode_discover:\n                    {\n                        answerHello(frame, st, iface_ctx);\n                    }",
  note='the pre-step already returned for foreign mappers')
# ---- C03
v('c03-swap-mappers', 'C03', 'fire', B, "                             &inFrameHeader->frameHeader.source,\n                             &inFrameHeader->realSource,", "                             &inFrameHeader->realSource,\n                             &inFrameHeader->frameHeader.source,", 'R03.3')
v('c03-gen-not-refreshed', 'C03', 'fire', B, "        } else if (*slot != generation_host) {\n            *slot = generation_host;\n        }", "        }", 'R03.3')
v('c03-seq-from-state', 'C03', 'fire', B, "                                  0,\n                                  opcode_hello,", "                                  st->mapper_seq,\n                                  opcode_hello,", 'R03.2')
v('c03-gen-no-htons', 'C03', 'fire', W, "    helloHeader->generation = lltd_htons(generation);", "    helloHeader->generation = generation;", 'R03.3')
v('c03-benign-shared-slot', 'C03', 'silent', B, "    return (tos == tos_quick_discovery)\n        ? &st->mapper_gen_quick\n        : &st->mapper_gen_topology;\n}\n\nstatic const char", "    return (tos == tos_quick_discovery)\n        ? &st->mapper_gen_topology\n        : &st->mapper_gen_topology;\n}\n\nstatic const char",
  note='the slot is overwritten by every accepted Discover before it is read')
# ---- C09
v('c09-keep-icon', 'C09', 'fire', B, "                    lltd_state_clear_icon_cache(st);\n                    st->mapper_known = 0;", "                    st->mapper_known = 0;", 'R09.2')
v('c09-memset-ptrsize', 'C09', 'fire', B, "    lltd_port_memset(st, 0, sizeof(*st));", "    lltd_port_memset(st, 0, sizeof(st));", 'R09.1')
v('c09-known-guard-removed', 'C09', 'fire', B, "    if (!st->mapper_known) {\n        return true;\n    }\n    return compareEthernetAddress", "    return compareEthernetAddress", 'R09.3')
v('c09-benign-seq-not-reset', 'C09', 'silent', B, "                    st->mapper_seq = 0;\n                    st->mapper_gen_topology = 0;", "                    st->mapper_gen_topology = 0;", note='sequence is rewritten by every handler before use')
v('c09-benign-gen-not-reset', 'C09', 'silent', B, "                    st->mapper_gen_topology = 0;\n                    st->mapper_gen_quick = 0;\n                    break;", "                    st->mapper_gen_quick = 0;\n                    break;", note='generation slot only feeds a log line before being overwritten')
# ---- C20
v('c20-strlen', 'C20', 'fire', W, "    return A->a[0]==B->a[0] &&", "    return strlen((const char *)A) != 99 && A->a[0]==B->a[0] &&", 'R20')
v('c20-string-h', 'C20', 'fire', W, '#include "lltdEndian.h"', '#include "lltdEndian.h"\n#include <string.h>', 'R20.c')
v('c20-ifdef-linux', 'C20', 'fire', W, '#include "lltdEndian.h"', '#include "lltdEndian.h"\n#ifdef __linux__\nstatic int lltd_on_linux;\n#endif', 'R20.d')

# ---- C02
v('c02-no-memset-hello', 'C02', 'fire', B, "    lltd_port_memset(buffer, 0, mtu);\n\n    ethernet_address_t our_mac = {{0, 0, 0, 0, 0, 0}};\n    (void)lltd_port_get_mac_address(iface_ctx, &our_mac);\n\n    set_active_mapper", "    ethernet_address_t our_mac = {{0, 0, 0, 0, 0, 0}};\n    (void)lltd_port_get_mac_address(iface_ctx, &our_mac);\n\n    set_active_mapper", 'R02.5')
v('c02-send-in-default', 'C02', 'fire', B, "                    st->mapper_gen_quick = 0;\n                    break;\n                default:\n                    break;\n            }\n            break;\n        case tos_quick_discovery:", "                    st->mapper_gen_quick = 0;\n                    break;\n                default:\n                    if (header->opcode == opcode_charge) answerHello(frame, st, iface_ctx);\n                    break;\n            }\n            break;\n        case tos_quick_discovery:", 'R02.1')
v('c02-version2', 'C02', 'fire', W, "    lltdHeader->version = 1;\n\n    return sizeof(lltd_demultiplex_header_t);\n}\n\nsize_t setLltdHeaderEx", "    lltdHeader->version = 2;\n\n    return sizeof(lltd_demultiplex_header_t);\n}\n\nsize_t setLltdHeaderEx", 'R02.3')
v('c02-tlv-wrong-size', 'C02', 'fire', T, "    return sizeof(*linkSpeedTL) + sizeof(wire);", "    return sizeof(*linkSpeedTL) + sizeof(wire) + 1;", 'R02.4')
v('c02-duplicate-tlv', 'C02', 'fire', B, "    offset += setQosCharacteristicsTLV(buffer, offset);\n    offset += setIconImageTLV(buffer, offset);", "    offset += setQosCharacteristicsTLV(buffer, offset);\n    offset += setIconImageTLV(buffer, offset);\n    offset += setIconImageTLV(buffer, offset);", 'R02.4')
v('c02-second-send', 'C02', 'fire', B, "    (void)lltd_port_send_frame(iface_ctx, buffer, offset);\n    lltd_port_free(buffer);\n}\n\n//====", "    (void)lltd_port_send_frame(iface_ctx, buffer, offset);\n    if (st->mapper_seq == 7) (void)lltd_port_send_frame(iface_ctx, buffer, offset);\n    lltd_port_free(buffer);\n}\n\n//====", 'R02.2')
v('c02-hostname-clamp-64', 'C02', 'fire', T, "    size_t written = lltd_port_get_hostname(base + offset + sizeof(*hostnameTLV), 32);\n    if (written > 32) {\n        written = 32;\n    }", "    size_t written = lltd_port_get_hostname(base + offset + sizeof(*hostnameTLV), 64);\n    if (written > 64) {\n        written = 64;\n    }", 'R02.4')
v('c02-no-end-marker', 'C02', 'fire', B, "    offset += setEndOfPropertyTLV(buffer, offset);\n", "    setEndOfPropertyTLV(buffer, offset);\n", 'R02.4')
v('c02-probe-len', 'C02', 'fire', B, "    if (lltd_port_send_frame(iface_ctx, probe, packageSize) < 0) {\n        log_warning(\"sendProbeMsg: send_frame failed (%zu bytes, opcode=%u)\"", "    if (lltd_port_send_frame(iface_ctx, probe, packageSize - 2) < 0) {\n        log_warning(\"sendProbeMsg: send_frame failed (%zu bytes, opcode=%u)\"", 'R02.4')
v('c02-uuid-uninit', 'C02', 'fire', B, "    offset += setQosCharacteristicsTLV(buffer, offset);\n    offset += setIconImageTLV(buffer, offset);", "    offset += setQosCharacteristicsTLV(buffer, offset);\n    { uint8_t junk[4]; lltd_port_memcpy(buffer + 60, junk, 4); }\n    offset += setIconImageTLV(buffer, offset);", 'R02.5', 'copies uninitialised stack bytes into the Hello')
v('c02-benign-reorder-tlvs', 'C02', 'silent', B, "    offset += setIPv4TLV(buffer, offset, iface_ctx);\n    offset += setIPv6TLV(buffer, offset, iface_ctx);", "    offset += setIPv6TLV(buffer, offset, iface_ctx);\n    offset += setIPv4TLV(buffer, offset, iface_ctx);")

# ---- C06
v('c06-ack-first', 'C06', 'fire', B, "        bool ack = (i == numDescs - 1);", "        bool ack = (i == 0);", 'R06.4')
v('c06-sleep-after-send', 'C06', 'fire', B, "    lltd_port_sleep_ms((uint32_t)pause_ms);\n    if (lltd_port_send_frame(iface_ctx, probe, packageSize) < 0) {", "    if (lltd_port_send_frame(iface_ctx, probe, packageSize) < 0) {", 'R06.2')
v('c06-swap-src-dst', 'C06', 'fire', B, "            (void)sendProbeMsg(emitee->sourceAddr,\n                               emitee->destAddr,", "            (void)sendProbeMsg(emitee->destAddr,\n                               emitee->sourceAddr,", 'R06.3')
v('c06-unclamped', 'C06', 'fire', B, "    if ((size_t)numDescs > maxDescs) {\n        numDescs = (int)maxDescs;\n    }", "", 'R06.1')
v('c06-stride-12', 'C06', 'fire', B, "        offsetEmitee += (uint16_t)sizeof(emitee_descs);", "        offsetEmitee += (uint16_t)(sizeof(emitee_descs) - 2);", 'R06')
v('c06-kind-swapped', 'C06', 'fire', B, "    uint8_t code = (type == 0x01) ? opcode_probe : opcode_train;", "    uint8_t code = (type == 0x01) ? opcode_train : opcode_probe;", 'R06.3')
v('c06-ack-seq-zero', 'C06', 'fire', B, "                        &st->mapper_real,\n                        st->mapper_seq, opcode_ack, tos_discovery);", "                        &st->mapper_real,\n                        0, opcode_ack, tos_discovery);", 'R06.4')
v('c06-pause-from-type', 'C06', 'fire', B, "                               emitee->pause,\n                               emitee->type,", "                               emitee->type,\n                               emitee->type,", 'R06.2')
v('c06-ack-every-iteration', 'C06', 'fire', B, "        bool ack = (i == numDescs - 1);", "        bool ack = true;", 'R06.4')
v('c06-benign-ptr-walk', 'C06', 'silent', B, "        emitee_descs *emitee = (emitee_descs *)((uint8_t *)emitHeader + sizeof(*emitHeader) + offsetEmitee);", "        uint8_t *cursor = (uint8_t *)inFrame + sizeof(*lltdHeader) + sizeof(*emitHeader);\n        emitee_descs *emitee = (emitee_descs *)(cursor + offsetEmitee);")

# ---- C10
v('c10-realdst-mapper', 'C10', 'fire', B, "                    (const ethernet_address_t *)&dst,                               /* realDest: emitee dst */", "                    &st->mapper_real,                               /* realDest */", 'R10.2')
v('c10-observer-eth-dst', 'C10', 'fire', B, "    bool forUs = compareEthernetAddress(&header->realDestination, &our_mac);", "    bool forUs = compareEthernetAddress(&header->realSource, &our_mac);", 'R10')
v('c10-emitter-realsrc', 'C10', 'fire', B, "                    (const ethernet_address_t *)&our_mac,                            /* realSource: our MAC */\n                    (const ethernet_address_t *)&dst,", "                    (const ethernet_address_t *)&src,                            /* realSource */\n                    (const ethernet_address_t *)&dst,", 'R10.3')
v('c10-emitter-quick-tos', 'C10', 'fire', B, "                    0, code, tos_discovery);\n\n    log_lltd_frame(\"TX\",", "                    0, code, tos_quick_discovery);\n\n    log_lltd_frame(\"TX\",", 'R10.3')

# ---- C08
v('c08-ge-first-guard', 'C08', 'fire', B, "    } else if (dataSize > dataOffset + maxPayload) {", "    } else if (dataSize >= dataOffset + maxPayload) {", 'R08')
v('c08-flag-4000', 'C08', 'fire', B, "        header->length = bytesToWrite | 0x8000;  // Set \"more\" flag", "        header->length = bytesToWrite | 0x4000;  // Set \"more\" flag", 'R08.2')
v('c08-copy-from-start', 'C08', 'fire', B, "                         (const uint8_t *)data + dataOffset,\n                         bytesToWrite);", "                         (const uint8_t *)data,\n                         bytesToWrite);", 'R08.1')
v('c08-answer-seq0', 'C08', 'fire', B, "    if (lltd_ntohs(lltdHeader->seqNumber) == 0) {\n        // as per spec, ignore LargeTLV with zeroed sequence Number\n        return;\n    }", "", 'R08.4')
v('c08-capacity-off-by-one', 'C08', 'fire', B, "        maxPayload = (uint16_t)(mtu - sizeof(lltd_demultiplex_header_t) - sizeof(qry_large_tlv_resp_t));", "        maxPayload = (uint16_t)(mtu - sizeof(lltd_demultiplex_header_t) - sizeof(qry_large_tlv_resp_t) - 1);", 'R08')
v('c08-benign-final-chunk-ge', 'C08', 'silent', B, "    } else if (dataSize > dataOffset) {\n        // Final chunk", "    } else if (dataSize >= dataOffset) {\n        // Final chunk", None)
v('c08-offset-no-ntohs', 'C08', 'fire', B, "    uint16_t offset = lltd_ntohs(header->offset);", "    uint16_t offset = header->offset;", 'R08.5')
v('c08-icon-for-name', 'C08', 'fire', B, "        case tlv_friendlyName:\n            log_crit(\"QueryLargeTLV: Friendly Name request, offset=%d\", offset);\n            if (lltd_port_get_friendly_name(&data, &dataSize) == 0) {\n                should_free = true;\n            }\n            break;", "        case tlv_friendlyName:\n            data = st->small_icon;\n            dataSize = st->small_icon_size;\n            break;", 'R08.5')
v('c08-stale-seq', 'C08', 'fire', B, "    st->mapper_seq = lltd_ntohs(lltdHeader->seqNumber);\n    set_active_mapper(st, &lltdHeader->realSource, &lltdHeader->frameHeader.source);\n\n    qry_large_tlv_t", "    set_active_mapper(st, &lltdHeader->realSource, &lltdHeader->frameHeader.source);\n\n    qry_large_tlv_t", 'R08.5')
v('c08-benign-ternary', 'C08', 'silent', B, "    } else if (dataSize > dataOffset) {\n        // Final chunk\n        bytesToWrite = dataSize - dataOffset;\n        header->length = bytesToWrite;\n    } else {\n        // Offset beyond data - empty response\n        header->length = 0;\n    }", "    } else {\n        bytesToWrite = (dataSize > dataOffset) ? (uint16_t)(dataSize - dataOffset) : 0;\n        header->length = bytesToWrite;\n    }")

# ---- C07
v('c07-no-filter', 'C07', 'fire', B, "    bool forUs = compareEthernetAddress(&header->realDestination, &our_mac);\n    if (!forUs) {\n        return;\n    }\n    if (st->see_list_count", "    if (st->see_list_count", 'R07.a')
v('c07-dedupe-src-only', 'C07', 'fire', B, "        if (compareEthernetAddress(&probe->sourceAddr, &cur->sourceAddr) &&\n            compareEthernetAddress(&probe->realSourceAddr, &cur->realSourceAddr)) {", "        if (compareEthernetAddress(&probe->sourceAddr, &cur->sourceAddr)) {", 'R07.b')
v('c07-no-clear-after-query', 'C07', 'fire', B, "    } else {\n        lltd_state_clear_seen_probes(st);\n    }\n}", "    }\n}", 'R07.f')
v('c07-more-bit-dropped', 'C07', 'fire', B, "    respH->numDescs = lltd_htons(more ? (uint16_t)(num_descs | 0x8000) : num_descs);", "    respH->numDescs = lltd_htons(num_descs);", 'R07.e')
v('c07-clear-all-when-more', 'C07', 'fire', B, "    if (more) {\n        lltd_state_drop_seen_probes(st, num_descs);\n    } else {", "    if (0) {\n        lltd_state_drop_seen_probes(st, num_descs);\n    } else {", 'R07.e')
v('c07-stale-seq', 'C07', 'fire', B, "    st->mapper_seq = lltd_ntohs(inHeader->seqNumber);\n    st->mapper_real = inHeader->realSource;", "    st->mapper_real = inHeader->realSource;", 'R07.d')
v('c07-always-unicast', 'C07', 'fire', B, "    if (!compareEthernetAddress(&inHeader->realSource, &inHeader->frameHeader.source)) {\n        destAddr = &EthernetBroadcast;\n    } else {\n        destAddr = &inHeader->realSource;\n    }\n\n    ethernet_address_t our_mac = {{0, 0, 0, 0, 0, 0}};\n    (void)lltd_port_get_mac_address(iface_ctx, &our_mac);\n\n    size_t offset = setLltdHeader(buffer,", "    destAddr = &inHeader->realSource;\n\n    ethernet_address_t our_mac = {{0, 0, 0, 0, 0, 0}};\n    (void)lltd_port_get_mac_address(iface_ctx, &our_mac);\n\n    size_t offset = setLltdHeader(buffer,", 'R07.d')
v('c07-swap-wire-fields', 'C07', 'fire', B, "        wire.realSourceAddr = node->realSourceAddr;\n        wire.sourceAddr = node->sourceAddr;", "        wire.realSourceAddr = node->sourceAddr;\n        wire.sourceAddr = node->realSourceAddr;", 'R07.c')
v('c07-record-eth-dst-as-src', 'C07', 'fire', B, "    probe->sourceAddr = header->frameHeader.source;\n    probe->destAddr = header->frameHeader.destination;", "    probe->sourceAddr = header->frameHeader.destination;\n    probe->destAddr = header->frameHeader.source;", 'R07')
v('c07-cap-100', 'C07', 'fire', B, "#define LLTD_MAX_SEEN_PROBES 1024", "#define LLTD_MAX_SEEN_PROBES 100", 'R07.h')
v('c07-no-count-increment', 'C07', 'fire', B, "    st->see_list = probe;\n    st->see_list_count++;", "    st->see_list = probe;", 'R07.g')
v('c07-lose-tail', 'C07', 'fire', B, "    probe->nextProbe = st->see_list;\n    st->see_list = probe;", "    st->see_list = probe;", 'R07.f')
v('c07-benign-type-via-local', 'C07', 'silent', B, "    probe->type = lltd_htons((header->opcode == opcode_probe) ? 1 : 0);", "    uint16_t kind = (header->opcode == opcode_probe) ? 1 : 0;\n    probe->type = lltd_htons(kind);")

# ---- C11
v('c11-stride-14', 'C11', 'fire', P, "    ethernet_address_t stationList[1];", "    ethernet_header_t  stationList[1];", 'R11.a', 'does not compile with the .a accessor -> uses second edit')
V[-1]['edits'].append({'file': A, 'old': "                const ethernet_address_t *stations = disc_header->stationList;\n                for (uint16_t i = 0; i < station_count; i++) {\n                    if (mac_equal(stations[i].a, our_mac)) {", 'new': "                const ethernet_header_t *stations = disc_header->stationList;\n                for (uint16_t i = 0; i < station_count; i++) {\n                    if (mac_equal(stations[i].source.a, our_mac)) {"})
v('c11-loop-from-1', 'C11', 'fire', A, "                for (uint16_t i = 0; i < station_count; i++) {", "                for (uint16_t i = 1; i < station_count; i++) {", 'R11.b')
v('c11-swapped-returns', 'C11', 'fire', A, "            return changed_xid ? sess_discover_acking_chgd_xid : sess_discover_acking;", "            return changed_xid ? sess_discover_acking : sess_discover_acking_chgd_xid;", 'R11.c')
v('c11-broadcast-test-5-bytes', 'C11', 'fire', A, "static bool mac_equal(const uint8_t *a, const uint8_t *b) {\n    return a[0] == b[0] && a[1] == b[1] && a[2] == b[2] &&\n           a[3] == b[3] && a[4] == b[4] && a[5] == b[5];", "static bool mac_equal(const uint8_t *a, const uint8_t *b) {\n    return a[0] == b[0] && a[1] == b[1] && a[2] == b[2] &&\n           a[3] == b[3] && a[4] == b[4];", 'R11')
v('c11-hello-as-reset', 'C11', 'fire', A, "    if (header->opcode == opcode_hello) {\n        return sess_hello;\n    }", "    if (header->opcode == opcode_hello) {\n        return sess_reset;\n    }", 'R11.c')
v('c11-probe-yields-event', 'C11', 'fire', A, "        return changed_xid ? sess_discover_noack_chgd_xid : sess_discover_noack;\n    }\n\n    return -1;", "        return changed_xid ? sess_discover_noack_chgd_xid : sess_discover_noack;\n    }\n\n    return header->opcode == opcode_probe ? sess_hello : -1;", 'R11.c')
v('c11-stop-at-first-mismatch', 'C11', 'fire', A, "                    if (mac_equal(stations[i].a, our_mac)) {\n                        acking = true;\n                        break;\n                    }", "                    if (mac_equal(stations[i].a, our_mac)) {\n                        acking = true;\n                    }\n                    break;", 'R11')
v('c11-benign-while', 'C11', 'silent', A, "                for (uint16_t i = 0; i < station_count; i++) {\n                    if (mac_equal(stations[i].a, our_mac)) {\n                        acking = true;\n                        break;\n                    }\n                }", "                uint16_t idx = 0;\n                while (idx < station_count && !acking) {\n                    acking = mac_equal(stations[idx].a, our_mac);\n                    idx++;\n                }")
# ---- C01
v('c01-esp32-no-length-guard', 'C01', 'fire', 'os/esp32/daemon/lltd_esp32.c', "    if (!ctx || !frame || length < sizeof(lltd_demultiplex_header_t)) {", "    if (!ctx || !frame) {", 'R01.obl')
v('c01-query-guard-relaxed', 'C01', 'fire', B, "        if (offset + sizeof(wire) > mtu) {\n            break;\n        }", "        if (offset > mtu) {\n            break;\n        }", 'R01.obl', 'alone still safe because max_descs bounds the loop -> combined with the next edit')
V[-1]['edits'].append({'file': B, 'old': "        max_descs = (mtu - sizeof(lltd_demultiplex_header_t) - sizeof(*respH)) / sizeof(lltd_probe_desc_wire_t);", 'new': "        max_descs = (mtu - sizeof(lltd_demultiplex_header_t) - sizeof(*respH)) / sizeof(lltd_probe_desc_wire_t) + 1;"})
v('c01-hostname-unclamped', 'C01', 'fire', T, "    if (written > 32) {\n        written = 32;\n    }\n    hostnameTLV->TLVLength = (uint8_t)written;", "    hostnameTLV->TLVLength = (uint8_t)written;", 'R01.obl')
v('c01-emit-unclamped', 'C01', 'fire', B, "    if ((size_t)numDescs > maxDescs) {\n        numDescs = (int)maxDescs;\n    }", "", 'R01.obl')
v('c01-int-shift', 'C01', 'fire', T, "    uint32_t wire = lltd_htonl(flags << 16);", "    int sflags = (int)(flags & 0xFFFF);\n    uint32_t wire = lltd_htonl((uint32_t)(sflags << 16));", 'R01.obl')
v('c01-largetlv-copy-unguarded', 'C01', 'fire', B, "    } else if (dataSize > dataOffset + maxPayload) {\n        // More data to come\n        bytesToWrite = maxPayload;", "    } else if (dataSize + 8 > dataOffset + maxPayload) {\n        // More data to come\n        bytesToWrite = maxPayload;", 'R01.obl')
v('c01-hwid-scan-past', 'C01', 'fire', B, "                for (size_t i = 0; i + 1 < 64; i += 2) {", "                for (size_t i = 0; i < 64; i += 2) {", None, 'benign? reads data[i+1] with i=62 -> 63 ok; i<64 even stays in bounds')
V[-1]['expect'] = 'silent'
V[-1]['id'] = 'c01-benign-hwid-loop-bound'
v('c01-hwid-scan-overrun', 'C01', 'fire', B, "                for (size_t i = 0; i + 1 < 64; i += 2) {", "                for (size_t i = 0; i < 64; i += 1) {", 'R01.obl', 'reads data[64]')
v('c01-use-after-free', 'C01', 'fire', B, "    (void)lltd_port_send_frame(iface_ctx, buffer, offset);\n    lltd_port_free(buffer);\n}\n\n//====", "    lltd_port_free(buffer);\n    (void)lltd_port_send_frame(iface_ctx, buffer, offset);\n}\n\n//====", 'R01.obl')
v('c01-table-index', 'C01', 'fire', A, "    t[10].from = 2; t[10].to = 1; t[10].with = -3;", "    t[10].from = 2; t[10].to = 7; t[10].with = -3;", 'R01')
v('c01-recv-len-const', 'C01', 'fire', 'os/linux/daemon/linux-main.c', "        ssize_t bytes = recvfrom(iface->socket, iface->recvBuffer, iface->MTU, 0, NULL, NULL);", "        ssize_t bytes = recvfrom(iface->socket, iface->recvBuffer, iface->ifIndex, 0, NULL, NULL);", 'R01.7')
# ---- C18
v('c18-no-null-check-hello', 'C18', 'fire', B, "    uint8_t *buffer = (uint8_t *)lltd_port_malloc(mtu);\n    if (!buffer) {\n        return;\n    }\n    lltd_port_memset(buffer, 0, mtu);\n\n    ethernet_address_t our_mac = {{0, 0, 0, 0, 0, 0}};\n    (void)lltd_port_get_mac_address(iface_ctx, &our_mac);\n\n    set_active_mapper", "    uint8_t *buffer = (uint8_t *)lltd_port_malloc(mtu);\n    lltd_port_memset(buffer, 0, mtu);\n\n    ethernet_address_t our_mac = {{0, 0, 0, 0, 0, 0}};\n    (void)lltd_port_get_mac_address(iface_ctx, &our_mac);\n\n    set_active_mapper", 'R18.a')
v('c18-return-before-free', 'C18', 'fire', B, "        log_warning(\"sendProbeMsg: send_frame failed (%zu bytes, opcode=%u)\", packageSize, code);\n        lltd_port_free(probe);\n        return false;", "        log_warning(\"sendProbeMsg: send_frame failed (%zu bytes, opcode=%u)\", packageSize, code);\n        return false;", 'R18')
v('c18-mtu-no-fallback', 'C18', 'fire', B, "    size_t mtu = 0;\n    if (lltd_port_get_mtu(iface_ctx, &mtu) != 0 || mtu == 0) {\n        mtu = 1500;\n    }\n\n    uint8_t *buffer = (uint8_t *)lltd_port_malloc(mtu);\n    if (!buffer) {\n        return;\n    }\n    lltd_port_memset(buffer, 0, mtu);\n\n    const ethernet_address_t *destAddr;", "    size_t mtu = 0;\n    (void)lltd_port_get_mtu(iface_ctx, &mtu);\n\n    uint8_t *buffer = (uint8_t *)lltd_port_malloc(mtu);\n    if (!buffer) {\n        return;\n    }\n    lltd_port_memset(buffer, 0, mtu);\n\n    const ethernet_address_t *destAddr;", 'R18.c')
v('c18-ctor-deref', 'C18', 'fire', A, "    automata *autom = lltd_port_malloc(sizeof(automata));\n    if (!autom) {\n        return NULL;\n    }\n    autom->states_no = 4;", "    automata *autom = lltd_port_malloc(sizeof(automata));\n    autom->states_no = 4;", 'R18')
v('c18-ctor-leak', 'C18', 'fire', A, "    if (!band) {\n        lltd_port_free(autom);\n        return NULL;\n    }", "    if (!band) {\n        return NULL;\n    }", 'R18.d')
v('c18-state-null', 'C18', 'fire', B, "    lltd_iface_state *st = lltd_state_for_iface(iface_ctx);\n    if (!st) {\n        return;\n    }", "    lltd_iface_state *st = lltd_state_for_iface(iface_ctx);", 'R18.a')
v('c18-bssid-uninit', 'C18', 'fire', T, "    uint8_t bssid[6];\n    if (lltd_port_get_bssid(iface_ctx, bssid) != 0) {\n        return 0;\n    }", "    uint8_t bssid[6];\n    (void)lltd_port_get_bssid(iface_ctx, bssid);", 'R18')
v('c18-probe-node-null', 'C18', 'fire', B, "    probe_t *probe = (probe_t *)lltd_port_malloc(sizeof(*probe));\n    if (!probe) {\n        return;\n    }", "    probe_t *probe = (probe_t *)lltd_port_malloc(sizeof(*probe));", 'R18.a')
# ---- C19
v('c19-no-free-query', 'C19', 'fire', B, "    (void)lltd_port_send_frame(iface_ctx, buffer, offset);\n    lltd_port_free(buffer);\n\n    if (more) {", "    (void)lltd_port_send_frame(iface_ctx, buffer, offset);\n\n    if (more) {", 'R19.b')
v('c19-no-cap', 'C19', 'fire', B, "    if (st->see_list_count >= LLTD_MAX_SEEN_PROBES) {\n        log_warning(\"parseProbe: observation list full (%u), dropping probe\", (unsigned)st->see_list_count);\n        return;\n    }\n", "", 'R19.c')
v('c19-reset-keeps-icon', 'C19', 'fire', B, "                    lltd_state_clear_icon_cache(st);\n                    st->mapper_known = 0;", "                    st->mapper_known = 0;", 'R19.d')
v('c19-friendly-name-leak', 'C19', 'fire', B, "            if (lltd_port_get_friendly_name(&data, &dataSize) == 0) {\n                should_free = true;\n            }", "            (void)lltd_port_get_friendly_name(&data, &dataSize);", 'R19.b')
v('c19-dup-not-freed', 'C19', 'fire', B, "    if (found) {\n        lltd_port_free(probe);\n        return;\n    }", "    if (found) {\n        return;\n    }", 'R19.b')
v('c19-icon-refetch', 'C19', 'fire', B, "            if (!st->small_icon && st->small_icon_size == 0) {\n                if (lltd_port_get_icon_image", "            if (1) {\n                if (lltd_port_get_icon_image", 'R19')
v('c19-double-free', 'C19', 'fire', B, "    lltd_port_free(probe);\n    return true;\n}", "    lltd_port_free(probe);\n    if (ack) lltd_port_free(probe);\n    return true;\n}", 'R19.b')
v('c19-hwid-leak', 'C19', 'fire', B, "                        break;\n                    }\n                }\n                should_free = true;", "                        break;\n                    }\n                }\n                should_free = (dataSize > 0);", 'R19.b')

# ---- C16
v('c16-lost-decrement', 'C16', 'fire', A, "            entry->valid = false;\n            if (table->count > 0) {\n                table->count--;\n            }\n            break;", "            entry->valid = false;\n            break;", 'R16.remove')
v('c16-insert-without-lookup', 'C16', 'fire', A, "    session_entry *existing = session_table_find(table, mapper_mac, generation, seq);\n    if (existing) {", "    session_entry *existing = NULL;\n    if (existing) {", 'R16.add')
v('c16-expiry-600', 'C16', 'fire', A, "                if (now_s > entry->last_activity_ts + 60) {", "                if (now_s > entry->last_activity_ts + 600) {", 'R16.expiry')
v('c16-expiry-ge', 'C16', 'fire', A, "                if (now_s > entry->last_activity_ts + 60) {", "                if (now_s >= entry->last_activity_ts + 60) {", 'R16.expiry')
v('c16-stale-flag-after-remove', 'C16', 'fire', A, "            break;\n        }\n    }\n\n    session_table_update_complete_status(table);\n}", "            break;\n        }\n    }\n}", 'R16.remove')
v('c16-find-ignores-generation', 'C16', 'fire', A, "        if (entry->valid &&\n            mac_equal(entry->mapper_mac, mapper_mac) &&\n            entry->generation == generation) {\n            return entry;", "        if (entry->valid &&\n            mac_equal(entry->mapper_mac, mapper_mac)) {\n            return entry;", 'R16.find')
v('c16-find-skips-valid', 'C16', 'fire', A, "        if (entry->valid &&\n            mac_equal(entry->mapper_mac, mapper_mac) &&\n            entry->generation == generation) {\n            return entry;", "        if (mac_equal(entry->mapper_mac, mapper_mac) &&\n            entry->generation == generation) {\n            return entry;", 'R16.find')
v('c16-find-15-entries', 'C16', 'fire', A, "    for (int i = 0; i < SESSION_TABLE_MAX_ENTRIES; i++) {\n        session_entry *entry = &table->entries[i];\n        if (entry->valid &&\n            mac_equal(entry->mapper_mac, mapper_mac) &&\n            entry->generation == generation) {\n            return entry;", "    for (int i = 0; i < SESSION_TABLE_MAX_ENTRIES - 1; i++) {\n        session_entry *entry = &table->entries[i];\n        if (entry->valid &&\n            mac_equal(entry->mapper_mac, mapper_mac) &&\n            entry->generation == generation) {\n            return entry;", 'R16.find')
v('c16-insert-no-count', 'C16', 'fire', A, "            table->count++;\n            table->all_complete = false;", "            table->all_complete = false;", 'R16.add')
v('c16-insert-keeps-flag', 'C16', 'fire', A, "            table->count++;\n            table->all_complete = false;", "            table->count++;", 'R16.add')
v('c16-insert-overwrites-valid', 'C16', 'fire', A, "        if (!entry->valid) {\n            mac_copy(entry->mapper_mac, mapper_mac);", "        if (!entry->valid || i == 3) {\n            mac_copy(entry->mapper_mac, mapper_mac);", 'R16.add')
v('c16-status-ignores-valid', 'C16', 'fire', A, "        if (entry->valid) {\n            any_valid = true;\n            if (!entry->complete) {\n                all_complete = false;\n                break;\n            }\n        }", "        {\n            any_valid = true;\n            if (!entry->complete) {\n                all_complete = false;\n                break;\n            }\n        }", 'R16.status')
v('c16-clear-keeps-count', 'C16', 'fire', A, "    lltd_port_memset(table->entries, 0, sizeof(table->entries));\n    table->count = 0;", "    lltd_port_memset(table->entries, 0, sizeof(table->entries));", 'R16.clear')
v('c16-empty-by-flag', 'C16', 'fire', A, "    return table->count == 0;", "    return table->all_complete;", 'R16.query')
v('c16-remove-all-matching', 'C16', 'fire', A, "            if (table->count > 0) {\n                table->count--;\n            }\n            break;\n        }\n    }\n\n    session_table_update_complete_status(table);", "            if (table->count > 0) {\n                table->count--;\n            }\n        }\n    }\n\n    session_table_update_complete_status(table);", 'R16.remove', 'benign in a consistent table (keys are unique) - but the rule demands the single-invalidation shape')
V[-1]['expect'] = 'silent'
V[-1]['id'] = 'c16-benign-remove-no-break'
v('c16-external-writer', 'C16', 'fire', A, "void band_do_hello(band_state *band) {\n    if (!band) {\n        return;\n    }", "static session_table *g_tbl;\nvoid band_do_hello(band_state *band) {\n    if (g_tbl) { g_tbl->count = 0; }\n    if (!band) {\n        return;\n    }", 'R16.a')
v('c16-benign-find-while', 'C16', 'silent', A, "    for (int i = 0; i < SESSION_TABLE_MAX_ENTRIES; i++) {\n        session_entry *entry = &table->entries[i];\n        if (entry->valid &&\n            mac_equal(entry->mapper_mac, mapper_mac) &&\n            entry->generation == generation) {\n            return entry;\n        }\n    }\n    return NULL;\n}\n\nsession_entry *session_table_add", "    int i = 0;\n    while (i < SESSION_TABLE_MAX_ENTRIES) {\n        session_entry *entry = &table->entries[i];\n        i++;\n        if (!entry->valid) {\n            continue;\n        }\n        if (entry->generation == generation && mac_equal(entry->mapper_mac, mapper_mac)) {\n            return entry;\n        }\n    }\n    return NULL;\n}\n\nsession_entry *session_table_add")

# ---- C12
v('c12-no-suppression', 'C12', 'fire', A, "                if (last_tx > 0 && now_ms - last_tx < HELLO_MIN_INTERVAL_MS) {", "                if (0) {", 'R12.c')
v('c12-suppression-500', 'C12', 'fire', A, "                if (last_tx > 0 && now_ms - last_tx < HELLO_MIN_INTERVAL_MS) {", "                if (last_tx > 0 && now_ms - last_tx < HELLO_MIN_INTERVAL_MS / 2) {", 'R12.c')
v('c12-no-stamp', 'C12', 'fire', A, "                        if (port->last_hello_tx_ms) {\n                            *port->last_hello_tx_ms = now_ms;\n                        }", "", 'R12.c')
v('c12-send-in-wait', 'C12', 'fire', A, "        if (enumeration->current_state == 1) {\n            if (band->hello_timeout_ts > 0", "        if (enumeration->current_state != 0) {\n            if (band->hello_timeout_ts > 0", 'R12.b')
v('c12-gate-ignores-complete', 'C12', 'fire', A, "            } else if (all_complete) {\n                switch_state_enumeration(enumeration, enum_sess_complete, \"tick\");", "            } else if (0) {\n                switch_state_enumeration(enumeration, enum_sess_complete, \"tick\");", 'R12.b')
v('c12-empty-keeps-state', 'C12', 'fire', A, "                lltd_port_log_debug(\"RepeatBand: Table empty, returning to Quiescent\");\n                enumeration->current_state = 0;", "                lltd_port_log_debug(\"RepeatBand: Table empty, returning to Quiescent\");", 'R12.d')
v('c12-second-caller', 'C12', 'fire', A, "void band_do_hello(band_state *band) {\n    if (!band) {\n        return;\n    }", "void lltd_kick(const lltd_automata_tick_port *p) {\n    if (p && p->send_hello) { p->send_hello(p->network_interface); }\n}\n\nvoid band_do_hello(band_state *band) {\n    if (!band) {\n        return;\n    }", 'R12.a')
v('c12-stamp-elsewhere', 'C12', 'fire', A, "void band_do_hello(band_state *band) {\n    if (!band) {\n        return;\n    }", "void lltd_forget_tx(const lltd_automata_tick_port *p) {\n    if (p && p->last_hello_tx_ms) { *p->last_hello_tx_ms = 0; }\n}\n\nvoid band_do_hello(band_state *band) {\n    if (!band) {\n        return;\n    }", 'R12.e')
v('c12-stamp-before-send-zero', 'C12', 'fire', A, "                            *port->last_hello_tx_ms = now_ms;", "                            *port->last_hello_tx_ms = band->hello_timeout_ts;", 'R12.c')
v('c12-benign-floor-removed', 'C12', 'silent', A, "                    if (band->hello_timeout_ts < now_ms + HELLO_MIN_INTERVAL_MS) {\n                        band->hello_timeout_ts = now_ms + HELLO_MIN_INTERVAL_MS;\n                    }\n", "", note='the post-send deadline floor is redundant: the suppression test alone enforces the 1000 ms spacing')
v('c12-benign-reorder-reset', 'C12', 'silent', A, "                enumeration->current_state = 0;\n                band->hello_timeout_ts = 0;\n                band->block_timeout_ts = 0;\n                band->begun = false;", "                band->begun = false;\n                band->block_timeout_ts = 0;\n                band->hello_timeout_ts = 0;\n                enumeration->current_state = 0;")

# ---- C17
v('c17-static-cache-tlv', 'C17', 'fire', T, "size_t setHostIdTLV(void *buffer, size_t offset, void *iface_ctx) {\n    uint8_t *base = (uint8_t *)buffer;", "static ethernet_address_t cached_mac;\nstatic int cached_mac_valid;\n\nsize_t setHostIdTLV(void *buffer, size_t offset, void *iface_ctx) {\n    uint8_t *base = (uint8_t *)buffer;\n    (void)cached_mac; (void)cached_mac_valid;", 'R17.1', 'a cache shared by all interfaces')
v('c17-static-local-seq', 'C17', 'fire', B, "    st->mapper_seq = lltd_ntohs(inHeader->seqNumber);\n    st->mapper_real = inHeader->realSource;", "    static uint16_t last_seq;\n    last_seq = lltd_ntohs(inHeader->seqNumber);\n    st->mapper_seq = last_seq;\n    st->mapper_real = inHeader->realSource;", 'R17.1')
v('c17-wrong-ctx-send', 'C17', 'fire', B, "    (void)lltd_port_send_frame(iface_ctx, buffer, offset);\n    lltd_port_free(buffer);\n}\n\n//====", "    (void)lltd_port_send_frame(st->next ? st->next->iface_ctx : iface_ctx, buffer, offset);\n    lltd_port_free(buffer);\n}\n\n//====", 'R17.2')
v('c17-lookup-first-record', 'C17', 'fire', B, "        if (cur->iface_ctx == iface_ctx) {\n            return cur;\n        }", "        if (cur->iface_ctx == iface_ctx || cur->next == NULL) {\n            return cur;\n        }", 'R17.2')
v('c17-global-used-elsewhere', 'C17', 'fire', B, "static void lltd_state_clear_icon_cache(lltd_iface_state *st) {\n    if (!st) {\n        return;\n    }", "static void lltd_state_clear_icon_cache(lltd_iface_state *st) {\n    if (!st) {\n        st = g_iface_states;\n    }\n    if (!st) {\n        return;\n    }", 'R17.2')
v('c17-benign-const-table', 'C17', 'silent', T, "size_t setHostIdTLV(void *buffer, size_t offset, void *iface_ctx) {\n    uint8_t *base = (uint8_t *)buffer;", "static const uint8_t lltd_tlv_pad[2] = {0, 0};\n\nsize_t setHostIdTLV(void *buffer, size_t offset, void *iface_ctx) {\n    uint8_t *base = (uint8_t *)buffer;\n    (void)lltd_tlv_pad;")

# ---- C04
LP = 'os/linux/lltd_port.c'
v('c04-speed-no-htonl', 'C04', 'fire', T, "    uint32_t wire = lltd_htonl(speed_100bps);", "    uint32_t wire = speed_100bps;", 'R04.a')
v('c04-rssi-uint8', 'C04', 'fire', T, "    uint32_t wire = lltd_htonl((uint32_t)(int32_t)rssi_dbm);", "    uint32_t wire = lltd_htonl((uint32_t)(uint8_t)rssi_dbm);", 'R04.a')
v('c04-ssid-clamp-64', 'C04', 'fire', T, "    size_t ssidSize = lltd_port_get_ssid(iface_ctx, base + offset + sizeof(*ssidTlv), 32);\n    if (ssidSize > 32) {\n        ssidSize = 32;\n    }", "    size_t ssidSize = lltd_port_get_ssid(iface_ctx, base + offset + sizeof(*ssidTlv), 64);\n    if (ssidSize > 64) {\n        ssidSize = 64;\n    }", 'R04.b')
v('c04-wifi-gate-removed', 'C04', 'fire', B, "    if (lltd_port_get_wifi_mode(iface_ctx, &wifi_mode) == 0) {\n        offset += setWirelessTLV(buffer, offset, iface_ctx);", "    (void)lltd_port_get_wifi_mode(iface_ctx, &wifi_mode);\n    {\n        offset += setWirelessTLV(buffer, offset, iface_ctx);", 'R04.c')
v('c04-linux-divisor-1000', 'C04', 'fire', LP, "    *out_speed_100bps = iface->LinkSpeed / 100U;", "    *out_speed_100bps = iface->LinkSpeed / 1000U;", 'R04.d')
v('c04-flags-no-shift', 'C04', 'fire', T, "    uint32_t wire = lltd_htonl(flags << 16);", "    uint32_t wire = lltd_htonl(flags);", 'R04.a')
v('c04-ipv4-swapped', 'C04', 'fire', T, "    lltd_port_memcpy(base + offset + sizeof(*hdr), &ipv4_be, sizeof(ipv4_be));", "    ipv4_be = lltd_htonl(ipv4_be);\n    lltd_port_memcpy(base + offset + sizeof(*hdr), &ipv4_be, sizeof(ipv4_be));", 'R04.a')
v('c04-maxrate-no-htons', 'C04', 'fire', T, "    uint16_t wire = lltd_htons(units_0_5mbps);", "    uint16_t wire = units_0_5mbps;", 'R04.a')
v('c04-perf-freq', 'C04', 'fire', T, "    uint64_t freq = 1000000;  // 1 MHz performance counter frequency", "    uint64_t freq = 10000000;  // 10 MHz", 'R04.a')
v('c04-bswap32-bug', 'C04', 'fire', 'lltdResponder/lltdEndian.h', "           ((value & 0x00FF0000u) >> 8) |", "           ((value & 0x00FF0000u) >> 16) |", 'R04.a')
v('c04-hostname-len-plus1', 'C04', 'fire', T, "    hostnameTLV->TLVLength = (uint8_t)written;", "    hostnameTLV->TLVLength = (uint8_t)(written + 1);", None)
v('c04-linux-loopback-bit', 'C04', 'fire', LP, "        flags |= Config_TLV_InterfaceIsLoopback_Value;", "        flags |= Config_TLV_HasManagementURL_Value;", 'R04.d')
v('c04-linux-mac-shifted', 'C04', 'fire', LP, "    memcpy(out_mac->a, iface->macAddress, sizeof(out_mac->a));", "    memcpy(out_mac->a, iface->macAddress + 1, sizeof(out_mac->a) - 1);", 'R04.d')
v('c04-benign-manual-be32', 'C04', 'silent', T, "    uint32_t wire = lltd_htonl(ifType);\n    lltd_port_memcpy(base + offset + sizeof(*hdr), &wire, sizeof(wire));", "    uint8_t wire[4];\n    wire[0] = (uint8_t)(ifType >> 24);\n    wire[1] = (uint8_t)(ifType >> 16);\n    wire[2] = (uint8_t)(ifType >> 8);\n    wire[3] = (uint8_t)ifType;\n    lltd_port_memcpy(base + offset + sizeof(*hdr), wire, sizeof(wire));")

# ---- lessons from independently seeded changes (see /verif/seeded/*/meta.json)
v('c07-seed-exact-fit-rejected', 'C07', 'fire', B, "        if (offset + sizeof(wire) > mtu) {\n            break;\n        }", "        if (mtu - offset <= sizeof(wire)) {\n            break;\n        }", 'R07.i', 'seeded/C07: an exactly fitting descriptor is not copied although it is announced and released')
v('c02-seed-capacity-from-32', 'C02', 'fire', B, "        max_descs = (mtu - sizeof(lltd_demultiplex_header_t) - sizeof(*respH)) / sizeof(lltd_probe_desc_wire_t);", "        max_descs = (mtu - sizeof(lltd_demultiplex_header_t)) / sizeof(lltd_probe_desc_wire_t);", 'R02.4', 'seeded/C02: announces one descriptor more than the copy loop fits at mtu % 20 in {12,13}')
v('c07-seed-capacity-from-32', 'C07', 'fire', B, "        max_descs = (mtu - sizeof(lltd_demultiplex_header_t) - sizeof(*respH)) / sizeof(lltd_probe_desc_wire_t);", "        max_descs = (mtu - sizeof(lltd_demultiplex_header_t)) / sizeof(lltd_probe_desc_wire_t);", 'R07')
v('c07-benign-guard-rewritten', 'C07', 'silent', B, "        if (offset + sizeof(wire) > mtu) {\n            break;\n        }", "        if (mtu - offset < sizeof(wire)) {\n            break;\n        }", note='same guard written as a subtraction (mtu >= offset always holds here): no descriptor that fits is rejected')

json.dump(V, open(os.path.join(HERE, 'variants.json'), 'w'), indent=1)
print(len(V), 'variants')
