#!/usr/bin/env python3
"""confirm_benign.py <worktree-with-seed/patchN.diff> ...  [--checks C01,C02,...] [--jobs N]
For every independently authored behaviour-preserving patch: apply it to a scratch copy of /repo (never /repo itself),
confirm it compiles and `make test` passes, then run every check (quick tier) against the copy.  A check that does not
exit 0 is either a false alarm (fix the machinery) or the patch is not behaviour-preserving after all (triage by hand).
Scratch copies live under a temporary directory and are removed at the end."""
import json
import os
import shutil
import subprocess
import sys
import tempfile
from concurrent.futures import ThreadPoolExecutor

HERE = os.path.dirname(os.path.abspath(__file__))
VERIF = os.path.dirname(HERE)
ALL = ['C%02d' % i for i in range(1, 21)]


def prepare(root, wt, patch):
    name = '%s-%s' % (os.path.basename(wt.rstrip('/')), os.path.basename(patch)[:-5])
    dst = os.path.join(root, name)
    # from the committed tree, not the working tree: a seed may be applied to /repo at this very moment (confirm_seed.sh)
    os.makedirs(dst)
    ar = subprocess.Popen(['git', '-C', '/repo', 'archive', 'HEAD'], stdout=subprocess.PIPE)
    subprocess.run(['tar', '-x', '-C', dst], stdin=ar.stdout, check=True)
    ar.wait()
    r = subprocess.run(['patch', '-p1', '-s', '-i', patch], cwd=dst, capture_output=True, text=True)
    if r.returncode != 0:
        return name, dst, 'PATCH-FAILS ' + (r.stdout + r.stderr)[:200]
    changed = [l[6:].strip() for l in open(patch) if l.startswith('+++ b/')]
    for f in changed:
        if f.endswith('.c') and f.startswith('lltdResponder/'):
            r = subprocess.run(['gcc', '-std=gnu11', '-fsyntax-only', '-w', '-DLINUX', '-IlltdResponder', f], cwd=dst, capture_output=True, text=True)
            if r.returncode != 0:
                return name, dst, 'NOCOMPILE ' + r.stderr[:200]
    r = subprocess.run(['make', 'test'], cwd=dst, capture_output=True, text=True)
    n = (r.stdout + r.stderr).count('[       OK ]')
    shutil.rmtree(os.path.join(dst, 'build'), ignore_errors=True)
    if r.returncode != 0 or n < 15:
        return name, dst, 'TESTS-FAIL exit=%d ok=%d' % (r.returncode, n)
    return name, dst, None


def check(task):
    name, dst, prop, root = task
    env = dict(os.environ, LLTD_REPO=dst, LLTD_EVIDENCE_DIR=os.path.join(root, 'ev', name), LLTD_REPLAY_DIR=os.path.join(root, 'rp', name))
    r = subprocess.run([os.path.join(VERIF, 'check'), prop, '--tier', 'quick'], capture_output=True, text=True, env=env, cwd=VERIF)
    out = r.stdout + r.stderr
    lines = [l.strip() for l in out.splitlines() if ('[R' in l and ']' in l and not l.strip().startswith('rule')) or 'BROKEN' in l or 'Traceback' in l]
    return name, prop, r.returncode, lines[:4]


def main():
    args = sys.argv[1:]
    jobs, checks = 12, ALL
    if '--jobs' in args:
        jobs = int(args[args.index('--jobs') + 1]); del args[args.index('--jobs'):args.index('--jobs') + 2]
    if '--checks' in args:
        checks = args[args.index('--checks') + 1].split(','); del args[args.index('--checks'):args.index('--checks') + 2]
    root = tempfile.mkdtemp(prefix='lltdsa-ben-')
    bad = 0
    try:
        preps = []
        for wt in args:
            sd = os.path.join(wt, 'seed')
            if not os.path.isdir(sd):
                sd = wt          # a kept set under /verif/benign/<id>/
            for f in sorted(os.listdir(sd)):
                if f.startswith('patch') and f.endswith('.diff'):
                    preps.append((wt, os.path.join(sd, f)))
        with ThreadPoolExecutor(max_workers=6) as ex:
            res = list(ex.map(lambda a: prepare(root, *a), preps))
        tasks = []
        for name, dst, err in res:
            if err:
                print('SKIP      %-22s %s' % (name, err))
                continue
            # heavy checks first so the pool drains evenly
            for p in sorted(checks, key=lambda c: c not in ('C01', 'C18')):
                tasks.append((name, dst, p, root))
        with ThreadPoolExecutor(max_workers=jobs) as ex:
            for name, prop, rc, lines in ex.map(check, tasks):
                if rc != 0:
                    bad += 1
                    print('ALARM     %-22s %s exit=%d' % (name, prop, rc))
                    for l in lines:
                        print('             ' + l[:260])
        print('benign: %d patches, %d checks each, %d alarms' % (len([r for r in res if not r[2]]), len(checks), bad))
    finally:
        shutil.rmtree(root, ignore_errors=True)
    return 1 if bad else 0


if __name__ == '__main__':
    sys.exit(main())
