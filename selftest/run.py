#!/usr/bin/env python3
"""Self-test of the checks: applies each variant of selftest/variants.json to a scratch copy of
/repo (never /repo itself), verifies it still compiles, runs the named check against the copy and
compares the verdict with the expectation ("fire" = exit 1 naming the expected rule, "silent" = exit 0).
Usage: selftest/run.py [PROP ...] [--jobs N]"""
import json, os, shutil, subprocess, sys, tempfile
from concurrent.futures import ThreadPoolExecutor
HERE = os.path.dirname(os.path.abspath(__file__))
VERIF = os.path.dirname(HERE)
REPO = os.environ.get('LLTD_REPO', '/repo')


def one(v):
    tmp = tempfile.mkdtemp(prefix='lltdsa-st-')
    try:
        dst = os.path.join(tmp, 'repo')
        if os.path.exists(os.path.join(REPO, '.git')):
            # the committed tree, not the working tree: a seed may be applied to /repo at this very moment (confirm_seed.sh)
            os.makedirs(dst)
            ar = subprocess.Popen(['git', '-C', REPO, 'archive', 'HEAD'], stdout=subprocess.PIPE)
            subprocess.run(['tar', '-x', '-C', dst], stdin=ar.stdout, check=True)
            ar.wait()
        else:
            shutil.copytree(REPO, dst, ignore=shutil.ignore_patterns('build', '_build'))
        if v.get('patch'):
            r = subprocess.run(['patch', '-p1', '-s', '-i', os.path.join(VERIF, v['patch'])], cwd=dst, capture_output=True, text=True)
            if r.returncode != 0:
                return v, 'STALE', 'patch does not apply: ' + (r.stdout + r.stderr)[:200]
            for l in open(os.path.join(VERIF, v['patch'])):
                if l.startswith('+++ b/lltdResponder/') and l.strip().endswith('.c'):
                    f = l[6:].strip()
                    r = subprocess.run(['gcc', '-std=gnu11', '-fsyntax-only', '-w', '-DLINUX', '-IlltdResponder', f], cwd=dst, capture_output=True, text=True)
                    if r.returncode != 0:
                        return v, 'NOCOMPILE', r.stderr[:300]
        for ed in v.get('edits', ()):
            p = os.path.join(dst, ed['file'])
            s = open(p).read()
            if s.count(ed['old']) < 1:
                return v, 'STALE', 'pattern not found in %s' % ed['file']
            s = s.replace(ed['old'], ed['new'], 1)
            open(p, 'w').write(s)
        for ed in v.get('edits', ()):
            if ed['file'].endswith('.c'):
                r = subprocess.run(['gcc', '-std=gnu11', '-fsyntax-only', '-w', '-DLINUX', '-IlltdResponder', ed['file']], cwd=dst, capture_output=True, text=True)
                if r.returncode != 0:
                    return v, 'NOCOMPILE', r.stderr[:300]
        env = dict(os.environ, LLTD_REPO=dst, LLTD_EVIDENCE_DIR=os.path.join(tmp, 'ev'), LLTD_REPLAY_DIR=os.path.join(tmp, 'rp'))
        r = subprocess.run([os.path.join(VERIF, 'check'), v['property'], '--tier', 'quick'], capture_output=True, text=True, env=env, cwd=VERIF)
        out = r.stdout + r.stderr
        if v['expect'] == 'fire':
            ok = r.returncode == 1 and ('VIOLATION property=%s' % v['property']) in out and (not v.get('rule') or v['rule'] in out)
        else:
            ok = r.returncode == 0
        return v, 'OK' if ok else 'MISMATCH', 'exit=%d %s' % (r.returncode, ' | '.join(l.strip() for l in out.splitlines() if '[' in l and ']' in l and 'rule' not in l[:8])[:400])
    finally:
        shutil.rmtree(tmp, ignore_errors=True)


def main():
    args = [a for i, a in enumerate(sys.argv[1:]) if not a.startswith('--') and sys.argv[i] != '--jobs']
    jobs = 8
    if '--jobs' in sys.argv:
        jobs = int(sys.argv[sys.argv.index('--jobs') + 1])
    vs = json.load(open(os.path.join(HERE, 'variants.json')))
    # independently authored changes kept under seeded/ (must fire) and benign/ (must stay silent, for every check listed)
    for d in sorted(os.listdir(os.path.join(VERIF, 'seeded'))):
        mp = os.path.join(VERIF, 'seeded', d, 'meta.json')
        if os.path.exists(mp):
            m = json.load(open(mp))
            if m.get('outside_contract'):
                continue      # manifests only outside the stated port contract (DESIGN §10): kept for the record, not expected to fire
            if m.get('round', 1) >= 2:     # round 1 is already in variants.json as edits
                vs.append({'id': 'seeded-' + d, 'property': m['property'], 'expect': 'fire', 'rule': None, 'patch': 'seeded/%s/patch.diff' % d})
    bdir = os.path.join(VERIF, 'benign')
    if os.path.isdir(bdir):
        for d in sorted(os.listdir(bdir)):
            mp = os.path.join(bdir, d, 'meta.json')
            if not os.path.exists(mp):
                continue
            m = json.load(open(mp))
            for f in sorted(os.listdir(os.path.join(bdir, d))):
                if f.startswith('patch') and f.endswith('.diff'):
                    for prop in m.get('checks', [m['property']]):
                        vs.append({'id': 'benign-%s-%s' % (d, f[:-5]), 'property': prop, 'expect': 'silent', 'rule': None, 'patch': 'benign/%s/%s' % (d, f)})
    if args:
        vs = [v for v in vs if v['property'] in args or v['id'] in args]
    bad = 0
    with ThreadPoolExecutor(max_workers=jobs) as ex:
        for v, status, info in ex.map(one, vs):
            print('%-9s %-4s %-28s expect=%-6s %s' % (status, v['property'], v['id'], v['expect'], info if status != 'OK' else ''))
            if status != 'OK':
                bad += 1
    print('selftest: %d variants, %d not as expected' % (len(vs), bad))
    return 1 if bad else 0


if __name__ == '__main__':
    sys.exit(main())
