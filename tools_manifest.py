#!/usr/bin/env python3
"""Regenerates MANIFEST.json from the table below (kept in one place so it stays valid)."""
import json, os
HERE = os.path.dirname(os.path.abspath(__file__))
CLAIMED = {
 'C04': ('proof', 'Every Hello frame the two Discover cells can transmit (all getter outcomes, name lengths, wired and wireless) is parsed over symbolic offsets; each property payload is compared byte lane by byte lane with the oracle encoding of the symbolic getter results (big-endian lanes, sign extension for RSSI, flags in the upper half-word, verbatim addresses, names clamped to 32 and written by the getter into the payload area, constants), wireless properties iff the port reports a Wi-Fi mode - deciding byte order, sign and clamps for all attribute values at once. The Linux port getters are interpreted on a symbolic interface record (address/MTU/type copied, speed/100, exact duplex/loopback truth table).',
         'clang AST, lltdsa engine (byte-lane domain), oracle TLV encodings; whether the Linux daemon fills the interface record correctly from the kernel is outside the property',
         'abstract interpretation with byte-lane terms; symbolic parse of the Hello; oracle encodings', '4 (C04)'),
 'C17': ('other', 'Sequential isolation: inventory of mutable static storage in the core (exactly the interface list), the list is used only by the context-keyed lookup (verified on its own: a hit rests on the context comparison, a miss yields a zeroed record keyed by the context), and every getter/send effect in all 65 536 dispatch cells carries the caller context - so a trace depends only on that interface\'s frames. Concurrent isolation: lockset over the resolved call graph from every pthread_create start routine of the daemons that parse here; the unsynchronised list access in lltd_state_for_iface is a recorded known finding (any other shared mutable storage or unlocked access is still a violation). Memory-model subtleties beyond unsynchronised conflicting accesses are not decided.',
         'clang AST, lltdsa engine; FreeBSD/SunOS/Win32/Darwin mains do not parse here; KNOWN_FINDINGS lists the g_iface_states race',
         'static-storage inventory + origin check of port effects + lockset over the resolved call graph', '4 (C17)'),
 'C12': ('other', 'Decided on the non-testing build of the core: the send_hello slot has exactly one call site (automata_tick) and only the tick stores the last-transmit time (who-may-call / who-may-write over all parsed units); automata_tick interpreted from every RepeatBand state with table count, all-complete flag, deadlines, last transmit time and clock symbolic shows that a send implies a non-empty, not-all-complete table, is preceded by the failed suppression test (nothing sent yet, or >= 1000 ms since) and followed by storing now - so consecutive periodic Hellos are >= 1000 ms apart under every interleaving - and that an empty table silences and resets the enumerator. Not decided: the Darwin daemon wiring and the documented frame-processing flow (darwin-main.c does not parse here).',
         'clang AST, lltdsa engine, monotone clock > 0, last-transmit variable written only through the tick port',
         'who-may-call / who-may-write + abstract interpretation of automata_tick per RepeatBand state', '4 (C12)'),
 'C16': ('other', 'Per-operation inductive ingredients of the table invariant (count = number of valid entries, unique key, all-complete = for-all over valid entries, stamps are clock readings) decided on the real API with a fully symbolic 16-entry table and every loop summarised by one symbolic index: exact count deltas paired with valid flips per iteration, lookup-before-insert with the identical key, insertion only into a slot established free, full table untouched, wipe, recomputation as a for-all, 60 s expiry in both directions, who-may-write. Step-by-step equivalence with a dictionary model over histories follows by induction and is not itself enumerated.',
         'clang AST + layouts, lltdsa engine; callers outside the parsed units that modify entries directly (Darwin) are not covered',
         'abstract interpretation with symbolic-index loop summaries; pairing and who-may-write rules', '4 (C16)'),
 'C01': ('other', 'Generated proof obligations: every dereference, subscript, memcpy/memset argument, shift, division and signed operation reachable from all receive/tick entry points (parseFrame over all 65 536 cells in both MTU modes, derive_session_event, ESP32 entry, switch_state_* from every state, automata_tick for every state pair with NULL-able arguments, table/band/mapping helpers, constructors) is discharged by intervals + linear entailment with inductive loop summaries, for all frame contents, MTUs, states and platform faults at once; plus the daemons\' buffer-size agreement (R01.7). Not a proof of the whole property: stack depth, port internals and unparseable daemons are out of reach, and one unbounded scan (derive_session_event) is a recorded known finding.',
         'clang AST + layouts, lltdsa engine, port contract (MTU-sized receive buffer, well-behaved getters/allocator); KNOWN_FINDINGS lists the derive_session_event scan',
         'abstract interpretation with generated proof obligations (interval + Fourier-Motzkin entailment), inductive loop summaries', '4 (C01)'),
 'C11': ('other', 'Station-list layout facts from the compiler (6-byte stride from offset 36), the scan decided by an inductive loop summary (entry k = bytes 36+6k.., any k; early exit only on a match) and the complete result table over all 256 opcodes x acking x known session x changed sequence read off the final abstract states. The bound of the scan by what the frame holds is not decided (recorded under C01).',
         'clang AST + layouts, lltdsa engine; Documentation alphabet of session events in oracle.SESS',
         'record-layout facts + abstract interpretation with inductive loop summary; result table vs oracle', '4 (C11)'),
 'C18': ('proof', 'Fault model in the port contract instead of fault enumeration: every allocation may fail on every path, every transmit may be refused, every getter and get_mtu may fail. Under it every path of every entry point discharges its safety obligations, frees its per-request buffers (typestate at exit), sizes buffers from the 1500 fallback, and the constructors return NULL / a usable object without leak. Subsumes failing the k-th allocation for every k.',
         'clang AST, lltdsa engine, port contract; behaviour of OS glue after a constructor returned NULL is out of scope; recovery by Reset is C09',
         'abstract interpretation under a non-deterministic fault model; heap typestate at exit', '4 (C18)'),
 'C19': ('proof', 'Heap typestate along every abstract path of parseFrame (all cells, both MTU modes, all fault combinations): every object allocated while handling a frame is freed or retained in the observation list / icon slot; list growth is guarded by a constant cap, the icon slot is filled only when empty; the topology Reset cell ends with only the per-interface record allocated; no double free / use after free. The numeric high-water mark is not computed.',
         'clang AST, lltdsa engine heap model (allocation sites, summary list node), port contract',
         'typestate analysis on the abstract heap; growth-guard rule', '4 (C19)'),
 'C07': ('other', 'Decides the inductive ingredients of C07 on the interpreted Probe/Train and Query cells: "for us" filter, de-duplication key = (Ethernet source, real source), exact field mapping frame->node->wire descriptor, QueryResp sequence number and destination rule, truncation (more bit set, unsent remainder kept, count reduced by what was reported), release after a complete report, count bookkeeping, capacity >= 300. The history-level multiset equality follows from these by induction and is not itself enumerated; the heap-shape invariant count = list length is assumed, not proved.',
         'clang AST, lltdsa engine with a summary (weak) list node; invariant count = list length assumed for the partial-release loop',
         'abstract interpretation with summary list node + inductive loop summaries; origin analysis', '4 (C07)'),
 'C08': ('proof', 'sendLargeTlvResponse interpreted with size in [0,32767], offset in [0,65535], MTU in [576,9216] symbolic; every path is split along the oracle case boundaries and length, copy (source data+offset, count), length field and more flag are decided by linear entailment; the QueryLargeTlv cells are interpreted for sequence-0 handling, response sequence number, type dispatch and the (data,size,offset) handed over. Reassembly follows by induction on the offset.',
         'clang AST, lltdsa engine (Fourier-Motzkin entailment), port contract; platform data correctness and sizes >= 32768 out of scope',
         'abstract interpretation to a piecewise-linear case table; linear entailment against the oracle', '4 (C08)'),
 'C06': ('proof', 'The Emit cell is interpreted with its descriptor loop summarised by one symbolic iteration k (affine closed forms i=k, offset=14k verified inductively, bounded by the MTU-derived capacity). Every iteration variant is checked: pause origin and ordering, addresses, kind, real source, ACK exactly in the last iteration with the Emit sequence number and mapper addresses; n frames in order follow by induction.',
         'clang AST, lltdsa engine (inductive loop summary), port contract',
         'abstract interpretation with inductive loop summary; per-iteration effect/origin checks', '4 (C06)'),
 'C10': ('other', 'Decides the structural clause of C10 - emitting and observing half agree on the frame format: the observer filter field and recorded identity are extracted from the interpreted Probe/Train cell and every Probe/Train the Emit cell can transmit must carry the descriptor destination / own address at exactly those offsets with a (ToS, opcode) reaching the observer. Network delivery and end-to-end histories are not decided (necessary condition only).',
         'clang AST, lltdsa engine; mapper names the observing station as descriptor destination; frames delivered unmodified',
         'sibling agreement by origin analysis of both halves', '4 (C10)'),
 'C02': ('proof', 'Every send_frame effect reachable in any of the 65 536 (ToS, opcode) cells, on every path including fault paths, is examined: cell (solicited only), count, header byte origins, per-opcode structure (Hello TLV chain parsed over symbolic offsets: host id first, legal lengths, no duplicate, end marker last), every byte below the length determined (zero fill / initialised store), length within the buffer sized from the MTU and Hello <= 576.',
         'clang AST, lltdsa engine, oracle TLV table, port contract; QueryResp count field vs list length relies on the count=length invariant (checked structurally under C07)',
         'abstract interpretation (effect trace + buffer snapshots with byte origins) over the dispatch matrix; symbolic parse of transmitted buffers', '4 (C02)'),
 'C09': ('proof', 'Non-interference argument in three checked steps: fresh record all-zero; after a topology Reset every field (from the record layout) is zero or untouched; with the untouched fields as unconstrained STALE symbols all 65 536 dispatch cells are interpreted and no STALE symbol survives in a transmitted byte, length, pause, allocation size or in the path knowledge of any final state; closed over the abstract states (mapper known?, STALE byte set) reachable afterwards.',
         'clang AST, lltdsa engine (merging joins away constraints of re-joining paths), port contract; log output is not considered behaviour',
         'abstract interpretation + origin/taint tracking of pre-Reset state (non-interference)', '4 (C09)'),
 'C03': ('proof', 'Origin analysis of every byte of the frame transmitted on each accepting path of the two Discover cells of the dispatch matrix (mapper state, addresses, generation, ToS all symbolic): exactly one frame, each header byte must be the required constant, port MAC byte or byte of this very Discover.',
         'clang AST, lltdsa engine, port contract (deterministic getters), summary of lltd_state_for_iface (verified by C09/C17 rules)',
         'abstract interpretation with byte-lane/origin terms over the Discover cells', '4 (C03)'),
 'C05': ('proof', 'Complete single-step transition function of parseFrame over 2 x 65 536 (mapper state x ToS x opcode) cells plus the address-equality predicate, compared with the oracle; coverage of all cells is checked; histories follow by induction.',
         'clang AST, lltdsa engine, oracle dispatch table, summary of lltd_state_for_iface',
         'abstract interpretation with trace partitioning on (ToS, opcode, mapper_known, address equality); transition function vs oracle', '4 (C05)'),
 'C13': ('proof', 'band_update_stats and band_choose_hello_time interpreted with r, prior count and begun symbolic: on every path the stored count is shown equal to min(NMAX, ALPHA*r^BETA) by polynomial identity plus path constraints, every unsigned wrap on the data path is reported, and the interval is shown to be exactly ceil(80*Ni/30) (both bounds) - covering all r in [0,2^32) at once; monotonicity follows from the exact formulas.',
         'clang AST, lltdsa engine (interval + linear entailment with div/mod axioms), RepeatBand constants from the documentation in oracle.BAND',
         'abstract interpretation with polynomial terms; interval/linear entailment; wrap detection', '4 (C13)'),
 'C14': ('proof', 'Constructor table and switch function of the mapping engine are interpreted abstractly over every int input and symbolic elapsed time; the complete transition relation (3 states x [-128,255] x {fresh,expired}) and the tick inactivity branch are compared with the oracle. Exhaustive over the single-step quantifier; histories follow by induction on (state,last timestamp).',
         'clang AST, lltdsa engine, oracle.mapping_step, monotone clock > 0',
         'abstract interpretation of real constructor/switch/tick code; relation vs oracle', '4 (C14)'),
 'C15': ('proof', 'Same method for the session automaton: complete relation over 4 states x events 0..7 x {fresh,expired} compared with the oracle; values outside the alphabet unconstrained.',
         'clang AST, lltdsa engine, oracle.session_step, monotone clock > 0',
         'abstract interpretation of real constructor/switch code; relation vs oracle', '4 (C15)'),
 'C20': ('proof', 'Symbol closure (ld -r / nm -u) of the core over the compiler matrix plus resolved callees, include graph and OS-macro scan: the finite configuration space of the quantifier is enumerated completely in the thorough tier.',
         'clang/gcc as installed; compilers not installed (OpenWatcom, MSVC, xtensa-gcc) not covered',
         'symbol closure + resolved-callee who-may-call + lexer-level include/conditional lint', '4 (C20)'),
}
PENDING_REASON = 'check not built yet in this session (static rule planned, see DESIGN.md section 4); not claimed until it exists'
def main():
    props = [json.loads(l)['id'] for l in open(os.path.join(HERE, 'properties.jsonl'))]
    checks, na = [], []
    for p in props:
        if p in CLAIMED:
            cat, text, note, tech, ref = CLAIMED[p]
            checks.append({'property_id': p, 'quick_cmd': './check %s --tier quick' % p,
                           'thorough_cmd': './check %s --tier thorough' % p,
                           'evidence_file': 'evidence/%s.json' % p,
                           'replay_cmd_template': './check %s --replay {path}' % p,
                           'engine': 'lltdsa',
                           'level_claimed': {'category': cat, 'text': text, 'design_ref': 'DESIGN.md section ' + ref},
                           'level_note': note, 'technique': tech})
        else:
            na.append({'property_id': p, 'reason': NA.get(p, PENDING_REASON)})
    m = {'version': 1, 'setup_cmd': 'python3 -m compileall -q lltdsa',
         'hooks': {'guard': 'LLTD_VERIF', 'enable': 'none needed: the checks read /repo source through clang -fsyntax-only; no hooks are compiled in',
                   'baseline_off_cmd': 'make -C /repo test', 'source_commits': [], 'add_only': True},
         'engines': [{'name': 'lltdsa', 'path': 'lltdsa/', 'serves_properties': sorted(CLAIMED),
                      'kind_free_text': 'repository-specific static analyser in Python over clang JSON AST + record layouts: abstract interpreter (finite sets/intervals, byte lanes, linear facts), structural rules, symbol closure'}],
         'checks': checks, 'not_applicable': na,
         'notes': 'Static analysis only. Exit codes: 0 pass, 1 VIOLATION, 2 ANALYSIS-BROKEN. Known findings in KNOWN_FINDINGS.'}
    json.dump(m, open(os.path.join(HERE, 'MANIFEST.json'), 'w'), indent=1)
NA = {}
if __name__ == '__main__':
    main()
