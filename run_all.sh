#!/bin/bash
# regenerate all evidence files (quick tier) and report exit codes
cd "$(dirname "$0")"
for p in $(python3 -c "import json;print(' '.join(c['property_id'] for c in json.load(open('MANIFEST.json'))['checks']))"); do
  ./check $p --tier ${1:-quick} > /tmp/lltdsa-$p.out 2>&1; echo "$p exit=$? $(head -1 /tmp/lltdsa-$p.out)"
done
