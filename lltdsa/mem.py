"""Byte-addressed loads/stores on abstract objects, with bounds obligations."""
from .terms import (C, ZERO, UNINIT, Dom, INF, Lin, lin_of, term_of_lin, is_const, mk_byte, mk_cat, to_bytes,
                    mk_sext, short)
from .state import Unsupported, split_off

MAXW = 8
from .facts import WORD as WORD_

import os as _os
BIG_ENDIAN = bool(_os.environ.get('LLTD_BIG_ENDIAN'))     # memory byte order of the modelled target


def mem_byte(t, i, w):
    """Byte at memory position i of a w-byte cell holding value term t."""
    return mk_byte(t, (w - 1 - i) if BIG_ENDIAN else i)


def off_key(st, offterm):
    return split_off(lin_of(st.canon(offterm)))


def _key_lin(symkey, c):
    return Lin(dict(symkey), c)


def _sym_range(st, symkey, cache):
    r = cache.get(symkey)
    if r is None:
        lo = hi = 0
        for a, c in symkey:
            d = st.dom(a)
            if c > 0:
                lo += c * d.lo
                hi += c * d.hi
            else:
                lo += c * d.hi
                hi += c * d.lo
        r = cache[symkey] = (lo, hi)
    return r


def may_overlap(st, k1, w1, k2, w2, cache=None):
    """Can [k1,k1+w1) and [k2,k2+w2) overlap?  k = (symkey,const); w int or term."""
    (s1, c1), (s2, c2) = k1, k2
    if s1 == s2 and isinstance(w1, int) and isinstance(w2, int):
        return c1 < c2 + w2 and c2 < c1 + w1
    if isinstance(w1, int) and isinstance(w2, int):
        if cache is None:
            cache = {}
        r = cache.get((s1, s2))
        if r is None:
            # range of the symbolic part of (k2 - k1); shared atoms cancel
            d = dict(s2)
            for a, c in s1:
                v = d.get(a, 0) - c
                if v:
                    d[a] = v
                else:
                    d.pop(a, None)
            r = cache[(s1, s2)] = _sym_range(st, tuple(d.items()), {})
        lo, hi = r
        # k2 - k1 = sym + (c2 - c1)
        if lo + (c2 - c1) >= w1 or hi + (c2 - c1) <= -w2:
            return False
        if not st.facts:
            return True
    l1, l2 = _key_lin(s1, c1), _key_lin(s2, c2)
    W1 = lin_of(w1) if not isinstance(w1, int) else Lin({}, w1)
    W2 = lin_of(w2) if not isinstance(w2, int) else Lin({}, w2)
    # disjoint if l1+w1 <= l2 or l2+w2 <= l1
    if st.entails_le0(l1.add(W1).add(l2, -1)):
        return False
    if st.entails_le0(l2.add(W2).add(l1, -1)):
        return False
    return True


def input_atom(o, symkey, c):
    if not symkey:
        return ('in', o.id, c)
    return ('in', o.id, term_of_lin(_key_lin(symkey, c)))


def load_byte(st, o, symkey, c):
    # exact-symkey cells covering this byte
    for back in range(MAXW):
        cell = o.cells.get((symkey, c - back))
        if cell is not None:
            w, t = cell
            if back < w:
                if w == 1 and t[0] != 'c':
                    d = st.dom(t)
                    if d.lo >= 0 and d.hi <= 255:
                        return t
                return mem_byte(t, back, w)
    # other symbolic cells that may alias
    if o.cells:
        cache = {}
        for (s2, c2), (w2, t2) in o.cells.items():
            if s2 != symkey and may_overlap(st, (symkey, c), 1, (s2, c2), w2, cache):
                return ('sym', st.fresh('alias:%s' % o.id), 0, 255)
    for reg in getattr_regions(o):
        rk, rn, src = reg
        if may_overlap(st, (symkey, c), 1, rk, rn):
            # unknown but initialised; the same location read twice is the same value unless a store that may
            # overlap it happened in between
            gen = 0
            if o.epoch:
                cache = {}
                for ek, ew in o.epoch:
                    if may_overlap(st, (symkey, c), 1, ek, ew, cache):
                        gen += 1
            return ('in', 'region:%s#%d@%d' % (o.id, len(getattr_regions(o)), gen), c if not symkey else term_of_lin(_key_lin(symkey, c)))
    if o.weak:
        return ('sym', st.fresh('weak:%s+%s' % (o.id, c if not symkey else '?')), 0, 255)
    d = o.default
    if d == 'zero':
        if o.zeroed_n is None or o.zeroed_n == o.size or (not symkey and st.prove_lt(C(c), o.zeroed_n)) \
                or st.prove_lt(term_of_lin(_key_lin(symkey, c)), o.zeroed_n):
            return ZERO
        return UNINIT
    if d in ('sym', 'unknown'):
        return input_atom(o, symkey, c)
    return UNINIT


def getattr_regions(o):
    return o.ptr_fields.get('__regions__', ()) if isinstance(o.ptr_fields, dict) and '__regions__' in o.ptr_fields else ()


def add_region(o, key, n, src):
    o.epoch = ()
    pf = dict(o.ptr_fields) if isinstance(o.ptr_fields, dict) else {}
    pf['__regions__'] = tuple(pf.get('__regions__', ())) + ((key, n, src),)
    o.ptr_fields = pf


def load_bytes(st, o, offterm, n):
    symkey, c = off_key(st, offterm)
    bs = [load_byte(st, o, symkey, c + i) for i in range(n)]
    if isinstance(o.ptr_fields, dict) and not symkey and n > WORD_:
        # a whole-record copy (`seen = *node`) keeps what the pointer fields of a summarised object point to
        for pf, tg in o.ptr_fields.items():
            if not isinstance(pf, int) or pf < c or pf + WORD_ > c + n:
                continue
            if o.cells.get(((), pf)) is not None and not o.weak:
                continue
            seg = bs[pf - c:pf - c + WORD_]
            t = reassemble(seg) if UNINIT not in seg else None
            if t is not None and (t == ZERO or t[0] in ('ptr', 'pset', 'fn')):
                continue
            if o.cells.get(((), pf)) is None or o.weak:
                pt = tg[0] if len(tg) == 1 else ('pset', ('sym', st.fresh('wp'), 0, 0), tuple(tg))
                for i in range(WORD_):
                    bs[pf - c + i] = mem_byte(pt, i, WORD_)
    return bs


def reassemble(bs):
    """cat of bytes, recognising byte(t,0..n-1) of one term."""
    if BIG_ENDIAN:
        bs = list(reversed(bs))
    n = len(bs)
    b0 = bs[0]
    if b0[0] == 'byte' and b0[2] == 0:
        t = b0[1]
        if all(b == ('byte', t, i) for i, b in enumerate(bs)):
            return t
    return mk_cat(bs)


def load_scalar(st, o, offterm, ct):
    """Load an int or pointer of type ct."""
    n = ct.size
    symkey, c = off_key(st, offterm)
    cell = o.cells.get((symkey, c))
    if cell is not None and cell[0] == n:
        t = cell[1]
        if ct.kind == 'ptr':
            return t
        if t[0] in ('ptr', 'pset', 'fn'):
            return t
        return fit_int(st, t, ct)
    if ct.kind == 'ptr' and isinstance(o.ptr_fields, dict) and not symkey and c in o.ptr_fields and cell is None:
        tg = o.ptr_fields[c]
        if len(tg) == 1:
            return tg[0]
        return ('pset', ('in', o.id, c), tuple(tg))
    bs = [load_byte(st, o, symkey, c + i) for i in range(n)]
    if any(b == UNINIT for b in bs):
        return UNINIT
    t = reassemble(bs)
    if ct.kind == 'ptr':
        if t == ZERO or t[0] in ('ptr', 'pset', 'fn'):
            return t
        if o.weak and isinstance(o.ptr_fields, dict) and c in o.ptr_fields:
            tg = o.ptr_fields[c]
            return tg[0] if len(tg) == 1 else ('pset', ('sym', st.fresh('wp'), 0, 0), tuple(tg))
        return ('sym', (st.fresh('weakptr:%s+%s' % (o.id, short(offterm))) if o.weak else 'unkptr:%s+%s' % (o.id, short(offterm))), 0, INF)
    if t[0] in ('ptr', 'pset', 'fn'):
        return t
    return fit_int(st, t, ct, from_unsigned_bytes=True)


def fit_int(st, t, ct, from_unsigned_bytes=False):
    """Re-express mathematical term t as a value of integer type ct (wrapping if needed)."""
    if t == UNINIT:
        return t
    lo, hi = ct.minmax()
    d = st.dom(t)
    if d.lo >= lo and d.hi <= hi:
        return t
    if t[0] not in ('c', 'cat', 'in', 'byte') and (st.facts or t[0] in ('add', 'sub', 'mul')) and (d.lo >= lo or st.prove_le(C(lo), t)) and (d.hi <= hi or st.prove_le(t, C(hi))):
        st.env[st.canon(t)] = d.meet(Dom(lo, hi))
        return t
    n = ct.size
    if ct.is_bool():
        return t
    if t[0] in ('add', 'sub', 'neg') and d.lo > -INF and d.hi < INF:
        # the whole range lies in one window of the modulus (e.g. a value known to be negative converted to unsigned:
        # x in [-128,-1] becomes x + 2^32): the conversion is an exact shift by a multiple of 2^(8n), no information is lost
        M = 1 << (8 * n)
        k = (int(d.lo) - lo) // M
        if k == (int(d.hi) - lo) // M and k != 0:
            l = lin_of(t)
            if l is not None:
                from .terms import term_of_lin
                l2 = l.add(lin_of(C(k * M)), -1)
                t2 = term_of_lin(l2)
                st.env[st.canon(t2)] = Dom(int(d.lo) - k * M, int(d.hi) - k * M)
                return t2
    u = mk_cat(to_bytes(t, n))
    if t[0] in ('add', 'sub', 'mul', 'div', 'mod', 'neg') and u[0] == 'cat' and all(b == ('byte', t, i) for i, b in enumerate(u[1])):
        # a compound value that may have wrapped: keep it opaque (any value of the type) instead of
        # nesting byte lanes of ever larger terms; equal terms give the same atom
        lo_, hi_ = ct.minmax()
        import hashlib
        nm_ = 'wrapped:' + hashlib.sha1(repr(t).encode()).hexdigest()[:12]
        from . import terms as _terms
        _terms.OPAQUE_DEFS.setdefault(nm_, t)
        return ('sym', nm_, lo_, hi_)
    if not ct.signed:
        return u
    s = mk_sext(u, n)
    if s[0] == 'sext':
        du = st.dom(u)
        if du.hi < (1 << (8 * n - 1)):
            return u
    return s


def kill_range(st, o, symkey, c, n):
    """Remove / split cells overlapping [c, c+n) (n int) before a strong store."""
    if getattr_regions(o):
        o.epoch = o.epoch + (((symkey, c), n),)
    dead = []
    cache = {}
    for (s2, c2), (w2, t2) in o.cells.items():
        if s2 == symkey:
            if c2 < c + n and c < c2 + w2:
                dead.append(((s2, c2), w2, t2))
        elif may_overlap(st, (symkey, c), n, (s2, c2), w2, cache):
            dead.append(((s2, c2), w2, None))
    for k, w2, t2 in dead:
        del o.cells[k]
        if t2 is None:
            for i in range(w2):
                o.cells[(k[0], k[1] + i)] = (1, ('sym', st.fresh('smash:%s' % o.id), 0, 255))
            continue
        # keep the bytes outside the overwritten range
        for i in range(w2):
            p = k[1] + i
            if p < c or p >= c + n:
                b = mem_byte(t2, i, w2)
                o.cells[(symkey, p)] = (1, b)


def store_scalar(st, o, offterm, n, t):
    if o.weak:
        weak_store(st, o, offterm, n, 'zero' if st.canon(t) == ZERO else ('const' if is_const(st.canon(t)) else 'other'))
        return
    symkey, c = off_key(st, offterm)
    kill_range(st, o, symkey, c, n)
    o.cells[(symkey, c)] = (n, t)


def weak_store(st, o, offterm, n, kind='other'):
    """A store into a summary object (e.g. an already linked list node) is a weak update the cells cannot hold; it is kept as
    an effect so that rules can ask "does anything write into existing nodes (their link field)?" - with the class of the
    value stored ('zero', 'const', 'other': a scrub before release stores constants, an unlink stores a pointer)."""
    symkey, c = off_key(st, offterm)
    st.effect(('weak-store', o.id, None if symkey else c, n, kind))


def store_bytes(st, o, offterm, bs):
    if o.weak:
        cb = [st.canon(b) for b in bs]
        weak_store(st, o, offterm, len(bs), 'zero' if all(b == ZERO for b in cb) else ('const' if all(is_const(b) for b in cb) else 'other'))
        return
    symkey, c = off_key(st, offterm)
    n = len(bs)
    kill_range(st, o, symkey, c, n)
    i = 0
    while i < n:
        b = bs[i]
        # regroup byte(t,0..w-1) runs into one cell (keeps pointers and wide values intact)
        if not BIG_ENDIAN and b[0] == 'byte' and b[2] == 0:
            t = b[1]
            w = 1
            while i + w < n and w < MAXW and bs[i + w] == ('byte', t, w):
                w += 1
            if w in (2, 4, 8) and (t[0] in ('ptr', 'pset', 'fn') or True):
                o.cells[(symkey, c + i)] = (w, t)
                i += w
                continue
        o.cells[(symkey, c + i)] = (1, b)
        i += 1
