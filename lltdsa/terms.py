"""Abstract values: terms over input atoms with byte lanes, interval/exclusion
domains, a tiny equality store and linear facts (Fourier-Motzkin entailment).

A *term* is a hashable tuple describing how a value was computed from input
atoms; mathematical (unbounded) integer semantics.  Values that may have
wrapped are re-expressed through their bytes (`cat` of `byte` lanes), so a
term never silently denotes a wrapped quantity.

  ('c', n)                     integer constant
  ('in', obj, off)             input byte atom (0..255): byte `off` of input object `obj`
  ('sym', name, lo, hi)        opaque atom with range
  ('byte', t, k)               k-th byte of two's-complement t (floor(t/256^k) mod 256)
  ('cat', (b0, b1, ...))       unsigned little-endian composition of byte terms
  ('sext', t, w)               t's low w bytes read as signed
  ('sxb', b)                   sign-extension byte of byte b (0xFF if b>=128 else 0)
  ('add'|'sub'|'mul'|'div'|'mod'|'and'|'or'|'xor'|'shl'|'shr', a, b), ('neg', a), ('bnot', a, w)
  ('eq'|'ne'|'lt'|'le', a, b), ('lnot', a)       booleans (0/1)
  ('ptr', obj, off)            pointer into object `obj` at byte offset term `off`;  NULL is ('c', 0)
  ('pset', (t1, t2, ...))      one of several pointer terms
  ('uninit',)                  indeterminate byte
  ('fn', name)                 function designator
"""
from fractions import Fraction

INF = float('inf')


def C(n):
    return ('c', int(n))


ZERO = C(0)
ONE = C(1)
UNINIT = ('uninit',)


def is_const(t):
    return t[0] == 'c'


def mk_byte(t, k):
    """k-th byte of term t (two's complement, infinite sign extension)."""
    k0 = t[0]
    if k0 == 'c':
        return C((t[1] >> (8 * k)) & 0xFF)
    if k0 == 'cat':
        return t[1][k] if k < len(t[1]) else ZERO
    if k0 in ('in', 'sxb', 'sel', 'selw'):
        return t if k == 0 else ZERO
    if k0 == 'byte':
        return t if k == 0 else ZERO
    if k0 == 'sext':
        w = t[2]
        if k < w:
            return mk_byte(t[1], k)
        return mk_sxb(mk_byte(t[1], w - 1))
    if k0 == 'uninit':
        return UNINIT
    if k0 in ('eq', 'ne', 'lt', 'le', 'lnot'):
        return t if k == 0 else ZERO
    if k0 == 'or' or k0 == 'and' or k0 == 'xor':
        a, b = mk_byte(t[1], k), mk_byte(t[2], k)
        return bitop_byte(k0, a, b, t, k)
    if k0 == 'shl' and is_const(t[2]) and t[2][1] % 8 == 0:
        s = t[2][1] // 8
        return mk_byte(t[1], k - s) if k >= s else ZERO
    if k0 == 'shr' and is_const(t[2]) and t[2][1] % 8 == 0:
        return mk_byte(t[1], k + t[2][1] // 8)
    return ('byte', t, k)


def bitop_byte(op, a, b, whole, k):
    if is_const(a) and is_const(b):
        x, y = a[1], b[1]
        return C({'or': x | y, 'and': x & y, 'xor': x ^ y}[op])
    if a == UNINIT or b == UNINIT:
        return UNINIT
    for p, q in ((a, b), (b, a)):
        if is_const(p):
            if op == 'or':
                if p[1] == 0:
                    return q
                if p[1] == 0xFF:
                    return C(0xFF)
            elif op == 'and':
                if p[1] == 0:
                    return ZERO
                if p[1] == 0xFF:
                    return q
            elif op == 'xor' and p[1] == 0:
                return q
    if a == b and op in ('or', 'and'):
        return a
    if a == b and op == 'xor':
        return ZERO
    return (op, a, b)   # byte-wide bit operation (both operands are byte terms)


def mk_sxb(b):
    if is_const(b):
        return C(0xFF if b[1] >= 128 else 0)
    if b == UNINIT:
        return UNINIT
    return ('sxb', b)


def mk_cat(bs):
    bs = tuple(bs)
    n = len(bs)
    if all(is_const(b) for b in bs):
        v = 0
        for i, b in enumerate(bs):
            v |= (b[1] & 0xFF) << (8 * i)
        return C(v)
    # drop high zero bytes
    while n > 1 and bs[n - 1] == ZERO:
        n -= 1
    bs = bs[:n]
    if n == 1:
        return bs[0]
    # cat(byte(t,0..n-1)) -> t when t is known to need exactly those bytes is decided by the caller (needs ranges)
    return ('cat', bs)


def to_bytes(t, w):
    return tuple(mk_byte(t, k) for k in range(w))


def mk_sext(t, w):
    if is_const(t):
        v = t[1] & ((1 << (8 * w)) - 1)
        if v >= 1 << (8 * w - 1):
            v -= 1 << (8 * w)
        return C(v)
    return ('sext', t, w)


# --------------------------------------------------------------------------
# domains
# --------------------------------------------------------------------------

class Dom(object):
    """Interval with a small set of excluded points."""
    __slots__ = ('lo', 'hi', 'ex')

    def __init__(self, lo, hi, ex=frozenset()):
        self.lo, self.hi = lo, hi
        if ex:
            ex = frozenset(x for x in ex if lo <= x <= hi)
            while lo in ex and lo <= hi:
                lo += 1
            while hi in ex and hi >= lo:
                hi -= 1
            self.lo, self.hi = lo, hi
            ex = frozenset(x for x in ex if lo < x < hi)
        self.ex = ex

    def empty(self):
        return self.lo > self.hi

    def const(self):
        return self.lo if self.lo == self.hi else None

    def contains(self, v):
        return self.lo <= v <= self.hi and v not in self.ex

    def meet(self, o):
        return Dom(max(self.lo, o.lo), min(self.hi, o.hi), self.ex | o.ex)

    def join(self, o):
        if self.empty():
            return o
        if o.empty():
            return self
        lo, hi = min(self.lo, o.lo), max(self.hi, o.hi)
        ex = set()
        for x in self.ex:
            if not o.contains(x):
                ex.add(x)
        for x in o.ex:
            if not self.contains(x):
                ex.add(x)
        # gap between disjoint small ranges
        if hi - lo <= 300 and (self.size() < 300 and o.size() < 300):
            for x in range(lo, hi + 1):
                if not self.contains(x) and not o.contains(x):
                    ex.add(x)
        return Dom(lo, hi, frozenset(ex))

    def without(self, v):
        if not self.contains(v):
            return self
        return Dom(self.lo, self.hi, self.ex | {v})

    def size(self):
        if self.empty():
            return 0
        return self.hi - self.lo + 1 - len(self.ex)

    def values(self):
        return [x for x in range(self.lo, self.hi + 1) if x not in self.ex]

    def __eq__(self, o):
        return isinstance(o, Dom) and (self.lo, self.hi, self.ex) == (o.lo, o.hi, o.ex)

    def __hash__(self):
        return hash((self.lo, self.hi, self.ex))

    def __repr__(self):
        if self.empty():
            return 'Dom(empty)'
        s = '[%s,%s]' % (self.lo, self.hi)
        if self.ex:
            s += '\\{%s}' % ','.join(str(x) for x in sorted(self.ex)[:6])
        return s


TOP = Dom(-INF, INF)
BYTE = Dom(0, 255)
BOOL = Dom(0, 1)


# --------------------------------------------------------------------------
# linear expressions and Fourier-Motzkin
# --------------------------------------------------------------------------

class Lin(object):
    """sum coeff*atom + k  (atoms are arbitrary non-linear terms)."""
    __slots__ = ('co', 'k')

    def __init__(self, co=None, k=0):
        self.co = co or {}
        self.k = k

    def add(self, o, f=1):
        co = dict(self.co)
        for a, c in o.co.items():
            v = co.get(a, 0) + f * c
            if v:
                co[a] = v
            else:
                co.pop(a, None)
        return Lin(co, self.k + f * o.k)

    def scale(self, f):
        if f == 0:
            return Lin()
        return Lin({a: c * f for a, c in self.co.items()}, self.k * f)

    def is_const(self):
        return not self.co

    def key(self):
        return (tuple(sorted(self.co.items(), key=repr)), self.k)

    def __repr__(self):
        return ' + '.join(['%s*%s' % (c, short(a)) for a, c in self.co.items()] + [str(self.k)])


def lin_of(t):
    """Linear view of a term (exact mathematical semantics)."""
    k = t[0]
    if k == 'c':
        return Lin({}, t[1])
    if k == 'add':
        return lin_of(t[1]).add(lin_of(t[2]))
    if k == 'sub':
        return lin_of(t[1]).add(lin_of(t[2]), -1)
    if k == 'neg':
        return lin_of(t[1]).scale(-1)
    if k == 'mul':
        a, b = lin_of(t[1]), lin_of(t[2])
        if a.is_const():
            return b.scale(a.k)
        if b.is_const():
            return a.scale(b.k)
    if k == 'shl' and is_const(t[2]):
        return lin_of(t[1]).scale(1 << t[2][1])
    return Lin({t: 1}, 0)


def term_of_lin(l):
    t = None
    for a, c in sorted(l.co.items(), key=repr):
        x = a if c == 1 else ('mul', C(c), a)
        t = x if t is None else ('add', t, x)
    if t is None:
        return C(l.k)
    if l.k:
        t = ('add', t, C(l.k))
    return t


def fm_infeasible(ineqs, limit=600):
    """ineqs: list of Lin (integer coefficients) meaning lin <= 0.
    True if the system has no rational solution (integer-only Fourier-Motzkin,
    rows de-duplicated, cheapest variable eliminated first)."""
    seen = set()
    rows = []

    def add(co, k):
        if not co:
            return k > 0
        key = (frozenset(co.items()), k)
        if key not in seen:
            seen.add(key)
            rows.append((co, k))
        return False

    for l in ineqs:
        if add(dict(l.co), l.k):
            return True
    while True:
        atoms = {}
        for co, _ in rows:
            for a, c in co.items():
                p = atoms.setdefault(a, [0, 0])
                p[0 if c > 0 else 1] += 1
        if not atoms:
            break
        a = min(atoms, key=lambda x: (atoms[x][0] * atoms[x][1], repr(x)))
        pos, neg, rest = [], [], []
        for co, k in rows:
            c = co.get(a, 0)
            if c > 0:
                pos.append((co, k, c))
            elif c < 0:
                neg.append((co, k, c))
            else:
                rest.append((co, k))
        rows = rest
        seen = set((frozenset(co.items()), k) for co, k in rows)
        if len(pos) * len(neg) > limit:
            continue            # sound: dropping constraints can only lose proofs
        for cp, kp, c1 in pos:
            for cn, kn, c2 in neg:
                co = {}
                m1, m2 = -c2, c1
                for x, v in cp.items():
                    if x != a:
                        co[x] = v * m1
                for x, v in cn.items():
                    if x != a:
                        nv = co.get(x, 0) + v * m2
                        if nv:
                            co[x] = nv
                        else:
                            co.pop(x, None)
                if add(co, kp * m1 + kn * m2):
                    return True
    return False


def short(t, depth=0):
    """Compact rendering for diagnostics."""
    if not isinstance(t, tuple):
        return str(t)
    k = t[0]
    if k == 'c':
        return str(t[1])
    if k == 'in':
        return '%s[%s]' % (t[1], t[2])
    if k == 'sym':
        return str(t[1])
    if depth > 4:
        return '...'
    if k == 'cat':
        return 'cat(' + ','.join(short(b, depth + 1) for b in t[1]) + ')'
    if k == 'ptr':
        return '&%s+%s' % (t[1], short(t[2], depth + 1))
    if k == 'pset':
        return '{' + '|'.join(short(x, depth + 1) for x in t[2]) + '}'
    ops = {'add': '+', 'sub': '-', 'mul': '*', 'div': '/', 'mod': '%', 'and': '&', 'or': '|', 'xor': '^',
           'shl': '<<', 'shr': '>>', 'eq': '==', 'ne': '!=', 'lt': '<', 'le': '<='}
    if k in ops and len(t) == 3:
        return '(%s %s %s)' % (short(t[1], depth + 1), ops[k], short(t[2], depth + 1))
    return k + '(' + ','.join(short(x, depth + 1) for x in t[1:]) + ')'


OPAQUE_DEFS = {}      # name of an opaque symbol (a value that may have wrapped around) -> the term it stands for


def atoms_of(t, acc=None):
    """Input atoms ('in'/'sym') occurring in a term (an opaque `wrapped:` symbol also contributes the atoms of the value it
    stands for: where a value comes from does not change when it wraps)."""
    if acc is None:
        acc = set()
    if not isinstance(t, tuple):
        return acc
    if t[0] in ('in', 'sym'):
        if t not in acc:
            acc.add(t)
            d = OPAQUE_DEFS.get(t[1]) if t[0] == 'sym' and OPAQUE_DEFS else None
            if d is not None:
                atoms_of(d, acc)
        return acc
    for x in t[1:]:
        if isinstance(x, tuple):
            if x and isinstance(x[0], tuple):
                for y in x:
                    atoms_of(y, acc)
            else:
                atoms_of(x, acc)
    return acc


def rebuild(k, args):
    """Re-create a term of kind k from (possibly simplified) arguments, constant-folding."""
    if k == 'byte':
        return mk_byte(args[0], args[1])
    if k == 'sxb':
        return mk_sxb(args[0])
    if k == 'sext':
        return mk_sext(args[0], args[1])
    if len(args) == 2 and isinstance(args[0], tuple) and isinstance(args[1], tuple) and is_const(args[0]) and is_const(args[1]):
        a, b = args[0][1], args[1][1]
        if k == 'add':
            return C(a + b)
        if k == 'sub':
            return C(a - b)
        if k == 'mul':
            return C(a * b)
        if k == 'and':
            return C(a & b)
        if k == 'or':
            return C(a | b)
        if k == 'xor':
            return C(a ^ b)
        if k == 'shl' and 0 <= b < 256:
            return C(a << b)
        if k == 'shr' and 0 <= b < 256:
            return C(a >> b)
        if k == 'div' and b != 0:
            q = abs(a) // abs(b)
            return C(q if (a < 0) == (b < 0) else -q)
        if k == 'mod' and b != 0:
            q = abs(a) // abs(b)
            q = q if (a < 0) == (b < 0) else -q
            return C(a - q * b)
        if k == 'eq':
            return C(int(a == b))
        if k == 'ne':
            return C(int(a != b))
        if k == 'lt':
            return C(int(a < b))
        if k == 'le':
            return C(int(a <= b))
    if k == 'neg' and is_const(args[0]):
        return C(-args[0][1])
    if k == 'lnot' and is_const(args[0]):
        return C(int(args[0][1] == 0))
    return (k,) + tuple(args)


def maybe_uninit(t):
    """Is the byte/term possibly indeterminate (UNINIT itself, or a getter-selected value whose
    'getter failed / did not write' arm is UNINIT)?"""
    if t == UNINIT:
        return True
    k = t[0]
    if k == 'sel':
        return maybe_uninit(t[2]) or maybe_uninit(t[3])
    if k == 'selw':
        return maybe_uninit(t[3]) or maybe_uninit(t[4])
    if k == 'cat':
        return any(maybe_uninit(b) for b in t[1])
    return False
