"""Big-step abstract interpreter over clang's JSON AST of the real functions.

Path-sensitive with merging of states that are identical in memory, effect
trace and typestate (knowledge is joined); loops whose condition is decided at
every iteration are executed, all others are summarised by one symbolic
iteration (havoc of modified cells, affine induction variables in closed form).
Nothing is executed concretely and no solver is called.
"""
import os

from . import facts
from .facts import AnalysisBroken, fn_body, fn_params, where
from .terms import (maybe_uninit, C, ZERO, ONE, UNINIT, Dom, INF, Lin, lin_of, term_of_lin, is_const, mk_byte, mk_cat,
                    to_bytes, mk_sext, short, BOOL)
from .state import State, Obj, Unsupported
from . import mem

MAX_STEPS = 3_000_000
MAX_CONCRETE_ITERS = 300
MAX_STATES = 20000


def pred_status(st, pairs):
    """True if all pairs are known equal, False if some pair is known unequal, None otherwise."""
    eq = 0
    for a, b in pairs:
        if st.canon(a) == st.canon(b):
            eq += 1
        elif st.known_neq(a, b):
            return False
    return True if eq == len(pairs) else None


def negate(t):
    k = t[0]
    if k == 'eq':
        return ('ne', t[1], t[2])
    if k == 'ne':
        return ('eq', t[1], t[2])
    if k == 'lt':
        return ('le', t[2], t[1])
    if k == 'le':
        return ('lt', t[2], t[1])
    if k == 'lnot':
        return t[1]
    return ('lnot', t)


class Val(object):
    __slots__ = ('ty', 't')

    def __init__(self, ty, t):
        self.ty = ty
        self.t = t

    def __repr__(self):
        return 'Val(%r,%s)' % (self.ty, short(self.t))


class Ob(object):
    """One proof obligation instance (deduplicated per site)."""
    __slots__ = ('kind', 'fn', 'node', 'ok', 'msg', 'sym', 'count', 'entry')

    def __init__(self, kind, fn, node, sym):
        self.kind, self.fn, self.node, self.sym = kind, fn, node, sym
        self.ok = True
        self.msg = None
        self.count = 0
        self.entry = None


class Interp(object):
    def __init__(self, prog, port=None, summaries=None, entry_name=None):
        self.prog = prog
        self.port = port
        self.summaries = summaries or {}
        self.obs = {}
        self.steps = 0
        self.entry_name = entry_name
        self.ix = None          # current unit index
        self.fn = None          # current function name
        self.loop_ids = {}
        self.functions_seen = set()
        self.max_states = 0
        self.tracked = ()       # terms whose domain is part of state identity
        self.tracked_preds = {}  # name -> [(a, b)]: 6-byte style equality predicates kept across merges
        self.recursive_fns = set()
        for ix in prog.index.values():
            for name, fn in ix.functions.items():
                for n in facts.walk(fn):
                    if n.get('kind') == 'DeclRefExpr' and n.get('referencedDecl', {}).get('kind') == 'FunctionDecl' \
                            and n['referencedDecl'].get('name') == name:
                        self.recursive_fns.add(name)
                        break
        self.uninit_reads = 0

    # ------------------------------------------------------------------ obligations
    def oblige(self, ok, kind, node, msg, sym=''):
        key = (kind, self.fn, id(node) if node is not None else None, sym)
        ob = self.obs.get(key)
        if ob is None:
            ob = self.obs[key] = Ob(kind, self.fn, node, sym)
            ob.entry = self.entry_name
        ob.count += 1
        if not ok:
            ob.ok = False
            if ob.msg is None:
                ob.msg = msg
        return ok

    def tick(self):
        self.steps += 1
        if self.steps > MAX_STEPS:
            raise AnalysisBroken('step budget exhausted in %s' % self.entry_name)
        if (self.steps & 0xFFF) == 0:
            import time
            if self.deadline is None:
                self.deadline = time.time() + float(os.environ.get('LLTD_ENGINE_BUDGET_S', '240'))
            elif time.time() > self.deadline:
                raise AnalysisBroken('time budget exhausted in %s (engine met code it cannot summarise in time)' % self.entry_name)

    deadline = None

    # ------------------------------------------------------------------ types
    def ty(self, node):
        return self.ix.type_of(node)

    def sizeof(self, ct):
        return self.ix.sizeof(ct)

    # ------------------------------------------------------------------ merging
    def merge(self, outs):
        """outs: list of (state, control). Merge identical states."""
        if len(outs) < 2 or getattr(self, 'no_merge', False):
            return outs
        if self.tracked_preds:
            for st, _ in outs:
                for name, pairs in self.tracked_preds.items():
                    if ('pred:' + name) in st.tags:
                        continue
                    stt = pred_status(st, pairs)
                    if stt is not None:
                        st.tags['pred:' + name] = stt
        res = self._merge_level(outs, True)
        if len(res) > 1:
            res = self._merge_level(res, False)
        if 1 < len(res) <= 12:
            res = self._merge_subsume(res)
        self.max_states = max(self.max_states, len(res))
        if len(res) > MAX_STATES:
            raise AnalysisBroken('state explosion (%d) in %s' % (len(res), self.entry_name))
        return res

    def _merge_level(self, outs, raw):
        groups = {}
        order = []
        # cheap pre-grouping: full signatures are only computed where a merge is possible
        pre = {}
        for i, (st, ctl) in enumerate(outs):
            pre.setdefault((st.pre_sig(), ctl[0] if ctl is not None else None), []).append(i)
        lone = set(v[0] for v in pre.values() if len(v) == 1)
        bytewise = None
        if not raw:
            bytewise = set()
            for idxs in pre.values():
                if len(idxs) < 2:
                    continue
                first = outs[idxs[0]][0]
                for i in idxs[1:]:
                    st2 = outs[i][0]
                    for oid, o in st2.objs.items():
                        o1 = first.objs.get(oid)
                        if o1 is None or o1.cells.keys() != o.cells.keys():
                            bytewise.add(oid)
        for i, (st, ctl) in enumerate(outs):
            if i in lone:
                sig = ('lone', i)
                groups[sig] = [st, ctl, False]
                order.append(sig)
                continue
            csig = None
            if ctl is not None:
                if ctl[0] == 'return':
                    v = ctl[1]
                    csig = ('return', (v.t if raw else st.canon(v.t)) if v is not None else None)
                else:
                    csig = ctl
            tr = tuple(st.dom(t) for t in self.tracked)
            if raw:
                sig = (csig, st.raw_hash(), tr)
                g = groups.get(sig)
                n_ = 0
                while g is not None and not g[0].raw_equal(st):
                    n_ += 1
                    sig = (csig, st.raw_hash(), tr, n_)
                    g = groups.get(sig)
            else:
                sig = (csig, st.mem_sig(raw, None, bytewise), tr)
                g = groups.get(sig)
            if g is None:
                groups[sig] = [st, ctl, False]
                order.append(sig)
            else:
                if not raw and not g[2]:
                    g[0].rewrite_canon()
                    if g[1] is not None and g[1][0] == 'return' and g[1][1] is not None:
                        g[1] = ('return', Val(g[1][1].ty, g[0].canon(g[1][1].t)))
                    g[2] = True
                g[0].join_knowledge(st)
        return [(groups[s][0], groups[s][1]) for s in order]

    def _merge_subsume(self, outs):
        """Y is absorbed by X when, under Y's own equalities, X's memory reads the same as Y's:
        X's (more general) cell terms then also describe Y's paths."""
        alive = list(outs)
        changed = True
        while changed and len(alive) > 1:
            changed = False
            for i in range(len(alive)):
                for j in range(len(alive)):
                    if i == j:
                        continue
                    (X, cx), (Y, cy) = alive[i], alive[j]
                    if (cx is None) != (cy is None) or (cx is not None and cx[0] != cy[0]):
                        continue
                    if not Y.eq or X.pre_sig() != Y.pre_sig():
                        continue
                    if X.frames != Y.frames or X.tags != Y.tags:
                        continue
                    if cx is not None and cx[0] == 'return':
                        vx, vy = cx[1], cy[1]
                        if (vx is None) != (vy is None):
                            continue
                        if vx is not None and Y.canon(vx.t) != Y.canon(vy.t):
                            continue
                    if tuple(X.dom(t) for t in self.tracked) != tuple(Y.dom(t) for t in self.tracked):
                        continue
                    diff = X.diff_objects(Y)
                    if diff is None or len(diff) > 3:
                        continue
                    same = True
                    for oid in diff:
                        if self._obj_bytes(X.objs[oid], Y) != self._obj_bytes(Y.objs[oid], Y):
                            same = False
                            break
                    if same:
                        X.join_knowledge(Y)
                        del alive[j]
                        changed = True
                        break
                if changed:
                    break
        return alive

    @staticmethod
    def _obj_bytes(o, cst):
        ent = {}
        for k, (w, t) in o.cells.items():
            ct = t if t[0] == 'c' else cst.canon(t)
            if w == 1:
                ent[k] = ct if ct[0] != 'c' else C(ct[1] & 0xFF)
            else:
                for i in range(w):
                    ent[(k[0], k[1] + i)] = mem.mem_byte(ct, i, w)
        return ent

    # ------------------------------------------------------------------ pointers
    def targets(self, st, pt):
        """Resolve a pointer term to [(state, objid|None, offterm)], forking on psets."""
        pt = st.canon(pt)
        k = pt[0]
        if k == 'ptr':
            return [(st, pt[1], pt[2])]
        if k == 'c':
            return [(st, None, ZERO)] if pt[1] == 0 else [(st, '?', ZERO)]
        if k == 'pset':
            out = []
            for x in pt[2]:
                s2 = st.fork()
                s2.eq[pt] = x
                s2.touch()
                out.extend(self.targets(s2, x))
            return out
        return [(st, '?', ZERO)]

    def check_access(self, st, oid, off, n, node, what):
        """Bounds/liveness obligation for an access of n bytes (n int or term)."""
        if oid is None:
            self.oblige(False, 'null-deref', node, 'NULL pointer dereferenced (%s)' % what)
            return False
        if oid == '?':
            self.oblige(False, 'wild-deref', node, 'pointer of unknown provenance dereferenced (%s)' % what)
            return False
        o = st.objs.get(oid)
        if o is None:
            self.oblige(False, 'dangling', node, 'access to object %s that is out of scope (%s)' % (oid, what))
            return False
        if not o.live:
            self.oblige(False, 'use-after-free', node, 'access to freed object %s (%s)' % (oid, what))
            return False
        self.oblige(True, 'use-after-free', node, '')
        nt = n if isinstance(n, tuple) else C(n)
        ok_lo = st.prove_le(ZERO, off)
        end = ('add', off, nt)
        ok_hi = st.prove_le(end, o.size)
        if o.kind == 'ext':
            ok_lo = ok_hi = True
        msg = ''
        if not (ok_lo and ok_hi):
            msg = '%s of %s byte(s) at offset %s of object %s (size %s) not proven in bounds' % (
                what, short(nt), short(st.canon(off)), oid, short(st.canon(o.size)))
        self.oblige(ok_lo and ok_hi, 'bounds', node, msg, sym=o.kind if o.kind in ('input',) else '')
        return True

    # ------------------------------------------------------------------ lvalues
    def lval(self, st, e):
        """-> [(state, objid, offterm, ctype)]"""
        self.tick()
        k = e['kind']
        if k == 'ParenExpr':
            return self.lval(st, e['inner'][0])
        if k == 'DeclRefExpr':
            rd = e['referencedDecl']
            oid = self.var_obj(st, rd)
            return [(st, oid, ZERO, self.ix.parse_type(rd['type']['qualType']))]
        if k == 'MemberExpr':
            base = e['inner'][0]
            rec, name, foff, fty = self.ix.field_info(e['referencedMemberDecl'])
            out = []
            if e.get('isArrow'):
                for s2, pv in self.rval(st, base):
                    for s3, oid, off in self.targets(s2, pv.t):
                        out.append((s3, oid, self.add_off(off, foff), fty))
            else:
                for s2, oid, off, _ in self.lval(st, base):
                    out.append((s2, oid, self.add_off(off, foff), fty))
            return out
        if k == 'ArraySubscriptExpr':
            b, i = e['inner']
            ety = self.ty(e)
            esz = self.sizeof(ety)
            out = []
            for s2, pv in self.rval(st, b):
                for s3, iv in self.rval(s2, i):
                    if pv.ty.kind != 'ptr':
                        pv, iv = iv, pv
                    for s4, oid, off in self.targets(s3, pv.t):
                        noff = self.simp(('add', off, ('mul', C(esz), iv.t)))
                        out.append((s4, oid, noff, ety))
            return out
        if k == 'UnaryOperator' and e['opcode'] == '*':
            out = []
            ty = self.ty(e)
            for s2, pv in self.rval(st, e['inner'][0]):
                for s3, oid, off in self.targets(s2, pv.t):
                    out.append((s3, oid, off, ty))
            return out
        if k == 'StringLiteral':
            oid = self.string_obj(st, e)
            return [(st, oid, ZERO, self.ty(e))]
        if k == 'PredefinedExpr':
            inner = [c for c in e.get('inner', []) if isinstance(c, dict) and 'kind' in c]
            if inner:
                return self.lval(st, inner[0])
        if k == 'CompoundLiteralExpr':
            ty = self.ty(e)
            oid = 'cl:%s:%s' % (self.fn, e.get('_line'))
            st.new_obj(oid, 'local', self.sizeof(ty))
            st.frames[-1]['#' + oid] = oid
            outs = self.init_obj(st, oid, ZERO, ty, e['inner'][0])
            return [(s, oid, ZERO, ty) for s in outs]
        if k in ('ImplicitCastExpr', 'CStyleCastExpr') and e.get('castKind') in ('NoOp', 'LValueBitCast'):
            return [(s, o, off, self.ty(e)) for s, o, off, _ in self.lval(st, e['inner'][0])]
        raise Unsupported('lvalue kind %s at %s' % (k, where(e)))

    def add_off(self, off, c):
        if c == 0:
            return off
        if is_const(off):
            return C(off[1] + c)
        return self.simp(('add', off, C(c)))

    def simp(self, t):
        """Normalise linear arithmetic."""
        k = t[0]
        if k in ('add', 'sub', 'neg') or (k == 'mul' and (is_const(t[1]) or is_const(t[2]))):
            return term_of_lin(lin_of(t))
        if k == 'mul' and is_const(t[1]) and is_const(t[2]):
            return C(t[1][1] * t[2][1])
        return t

    def var_obj(self, st, rd):
        did = rd['id']
        for fr in reversed(st.frames[-1:]):
            if did in fr:
                return fr[did]
        # global or static local
        decl = self.ix.decl.get(did)
        if decl is None:
            raise Unsupported('unknown declaration %s' % rd.get('name'))
        if decl.get('kind') == 'ParmVarDecl' or (decl.get('kind') == 'VarDecl' and decl.get('_fn') and decl.get('storageClass') != 'static'):
            raise Unsupported('use of local %s outside its frame (%s)' % (rd.get('name'), where(decl)))
        return self.global_obj(st, decl)

    def global_obj(self, st, decl):
        name = decl.get('name')
        oid = 'g:' + name if not decl.get('_fn') else 'g:%s.%s' % (decl['_fn'], name)
        if oid in st.objs:
            return oid
        # find the defining declaration (with initialiser) in this or any unit
        ix, d = self.find_global_def(decl)
        ty = ix.parse_type(d['type']['qualType'])
        const = 'const' in d['type']['qualType'].split('*')[-1] or d['type']['qualType'].startswith('const ')
        o = st.new_obj(oid, 'global', ix.sizeof(ty), default='zero', ro=False)
        o.zeroed_n = o.size
        init = [c for c in d.get('inner', []) if c.get('kind', '').endswith(('Expr', 'Literal', 'Operator'))]
        if init:
            save = self.ix
            self.ix = ix
            try:
                outs = self.init_obj(st, oid, ZERO, ty, init[0])
            finally:
                self.ix = save
            if len(outs) != 1:
                raise Unsupported('forking global initialiser ' + name)
        o.ro = const
        if not const and oid not in st.tags.get('known_globals', ()):
            # mutable global: contents at function entry are arbitrary
            o.cells.clear()
            o.default = 'unknown'
        return oid

    def find_global_def(self, decl):
        name = decl.get('name')
        if decl.get('storageClass') == 'static' or decl.get('_fn'):
            return self.ix, decl
        best = None
        for ix in [self.ix] + list(self.prog.index.values()):
            d = ix.globals.get(name)
            if d is not None and d.get('storageClass') != 'extern':
                if any(c.get('kind', '').endswith(('Expr', 'Literal')) for c in d.get('inner', [])):
                    return ix, d
                best = best or (ix, d)
        return best or (self.ix, decl)

    def string_obj(self, st, e):
        v = e.get('value', '')
        oid = 'str:%s:%s:%s' % (self.fn, e.get('_line'), abs(hash(v)) % 100000)
        if oid not in st.objs:
            ty = self.ty(e)
            n = self.sizeof(ty) if ty.kind == 'arr' and ty.n else 1
            o = st.new_obj(oid, 'str', n, default='unknown', ro=True)
        return oid

    # ------------------------------------------------------------------ initialisers
    def init_obj(self, st, oid, off, ty, init):
        """Initialise object region from an initialiser expression -> [states]"""
        k = init['kind']
        if k == 'InitListExpr':
            o = st.objs[oid]
            n = self.sizeof(ty)
            mem.store_bytes(st, o, off, [ZERO] * n) if n <= 4096 else None
            items = init.get('inner', [])
            if 'array_filler' in init:
                items = [x for x in init['array_filler'] if x.get('kind') != 'ImplicitValueInitExpr']
            states = [st]
            if ty.kind == 'rec':
                flds = ty.rec.fields
                for f, it in zip(flds, items):
                    nxt = []
                    for s in states:
                        nxt.extend(self.init_obj(s, oid, self.add_off(off, f[1]), self.ix.parse_type(f[2]), it))
                    states = nxt
            elif ty.kind == 'arr':
                es = self.sizeof(ty.to)
                for i, it in enumerate(items):
                    nxt = []
                    for s in states:
                        nxt.extend(self.init_obj(s, oid, self.add_off(off, i * es), ty.to, it))
                    states = nxt
            else:
                if items:
                    return self.init_obj(st, oid, off, ty, items[0])
            return states
        if k == 'ImplicitValueInitExpr':
            mem.store_bytes(st, st.objs[oid], off, [ZERO] * self.sizeof(ty))
            return [st]
        if k == 'StringLiteral' and ty.kind == 'arr':
            mem.store_bytes(st, st.objs[oid], off, [('sym', 'strbyte', 0, 255)] * 0)
            return [st]
        out = []
        for s2, v in self.rval(st, init):
            self.store(s2, oid, off, ty, v, init)
            out.append(s2)
        return out

    # ------------------------------------------------------------------ load / store
    def load(self, st, oid, off, ty, node):
        if not self.check_access(st, oid, off, self.sizeof(ty) if ty.kind != 'void' else 1, node, 'read'):
            return None
        o = st.objs[oid]
        if ty.kind in ('int', 'ptr'):
            t = mem.load_scalar(st, o, off, ty)
            if t == UNINIT or (t[0] == 'cat' and UNINIT in t[1]):
                self.uninit_reads += 1
                self.oblige(False, 'uninit-read', node, 'read of uninitialised %s bytes of %s at offset %s' % (ty.size, oid, short(off)))
                t = ('sym', st.fresh('uninit'), ty.minmax()[0], ty.minmax()[1]) if ty.kind == 'int' else ('sym', 'unkptr:uninit', 0, INF)
            elif t[0] in ('sel', 'selw', 'cat') and maybe_uninit(st.canon(t)):
                # a getter's destination that was not initialised before the call: the getter may leave it untouched
                self.uninit_reads += 1
                self.oblige(False, 'uninit-read', node, 'read of %s bytes of %s at offset %s that are uninitialised unless a platform getter wrote them '
                            '(a getter that fails, or writes fewer bytes, leaves its destination untouched)' % (ty.size, oid, short(off)))
            else:
                self.oblige(True, 'uninit-read', node, '')
            return Val(ty, t)
        if ty.kind in ('rec', 'arr'):
            n = self.sizeof(ty)
            bs = mem.load_bytes(st, o, off, n)
            return Val(ty, ('blob', tuple(bs)))
        raise Unsupported('load of type %r at %s' % (ty, where(node)))

    def store(self, st, oid, off, ty, v, node):
        n = self.sizeof(ty)
        if not self.check_access(st, oid, off, n, node, 'write'):
            return False
        o = st.objs[oid]
        if o.ro:
            self.oblige(False, 'write-ro', node, 'write to read-only object ' + oid)
            return False
        if o.kind == 'input':
            self.oblige(False, 'write-input', node, 'store through a pointer into the received frame')
        if ty.kind in ('int', 'ptr'):
            mem.store_scalar(st, o, off, n, v.t)
        elif v.t[0] == 'blob':
            mem.store_bytes(st, o, off, list(v.t[1]))
        else:
            raise Unsupported('store of %r' % (v,))
        self.note_store(st, oid, off, n, ty, v.t)
        hook = getattr(self, 'on_store', None)
        if hook:
            hook(st, oid, off, n, v, node)
        return True

    store_log = None

    flag_terms = None

    def note_store(self, st, oid, off, n, ty, t):
        if isinstance(t, tuple) and t and t[0] in ('eq', 'ne', 'lnot') and n == 1:
            if self.flag_terms is None:
                self.flag_terms = set()
            e = t
            neg = False
            while e[0] == 'lnot':
                e = e[1]
            if e[0] == 'ne':
                e = ('eq', e[1], e[2])
            if e[0] == 'eq':
                self.flag_terms.add(e)
                self.flag_terms.add(('eq', e[2], e[1]))
        if self.store_log is not None:
            self.store_log.append((oid, mem.off_key(st, off), n, ty, t))

    def raw_store(self, st, oid, off, n, t, ty=None):
        """Store used by the port model (bounds already checked by the caller)."""
        o = st.objs[oid]
        if isinstance(t, list):
            mem.store_bytes(st, o, off, t)
            self.note_store(st, oid, off, n, None, None)
        else:
            mem.store_scalar(st, o, off, n, t)
            self.note_store(st, oid, off, n, ty, t)

    # ------------------------------------------------------------------ rvalues
    def rval(self, st, e):
        """-> [(state, Val)]"""
        self.tick()
        k = e['kind']
        m = getattr(self, 'r_' + k, None)
        if m is None:
            raise Unsupported('expression kind %s at %s' % (k, where(e)))
        return m(st, e)

    def r_ParenExpr(self, st, e):
        return self.rval(st, e['inner'][0])

    def r_ConstantExpr(self, st, e):
        if 'value' in e:
            return [(st, Val(self.ty(e), C(int(e['value']))))]
        return self.rval(st, e['inner'][0])

    def r_IntegerLiteral(self, st, e):
        return [(st, Val(self.ty(e), C(int(e['value']))))]

    def r_CharacterLiteral(self, st, e):
        return [(st, Val(self.ty(e), C(int(e['value']))))]

    def r_StringLiteral(self, st, e):
        oid = self.string_obj(st, e)
        return [(st, Val(self.ty(e), ('ptr', oid, ZERO)))]

    def r_UnaryExprOrTypeTraitExpr(self, st, e):
        name = e.get('name')
        if 'argType' in e:
            t = self.ix.parse_type(e['argType']['qualType'])
        else:
            t = self.ty(e['inner'][0])
        if name == 'sizeof':
            return [(st, Val(self.ty(e), C(self.sizeof(t))))]
        if name in ('alignof', '_Alignof', '__alignof'):
            return [(st, Val(self.ty(e), C(t.rec.align if t.kind == 'rec' else max(1, t.size))))]
        raise Unsupported('type trait ' + str(name))

    def r_PredefinedExpr(self, st, e):
        inner = [c for c in e.get('inner', []) if isinstance(c, dict) and 'kind' in c]
        if not inner:
            raise Unsupported('predefined expression without a literal')
        return self.rval(st, inner[0])

    def r_GenericSelectionExpr(self, st, e):
        # the association clang selected (the choice is made on types at compile time)
        for c in e.get('inner', [])[1:]:
            if isinstance(c, dict) and c.get('selected'):
                inner = [x for x in c.get('inner', []) if isinstance(x, dict) and 'kind' in x and not x['kind'].endswith('Type')]
                if inner:
                    return self.rval(st, inner[-1])
        raise Unsupported('_Generic: selected association not found')

    def r_StmtExpr(self, st, e):
        body = e['inner'][0]
        kids = [c for c in body.get('inner', []) if isinstance(c, dict)]
        if not kids:
            return [(st, Val(self.ty(e), ZERO))]
        cur = [st]
        for c in kids[:-1]:
            nxt = []
            for s2 in cur:
                for s3, ctl in self.exec_stmt(s2, c):
                    if ctl is not None:
                        raise Unsupported('control transfer out of a statement expression')
                    nxt.append(s3)
            cur = nxt
        out = []
        last = kids[-1]
        for s2 in cur:
            if last['kind'].endswith(('Expr', 'Operator', 'Literal')):
                out.extend(self.rval(s2, last))
            else:
                for s3, ctl in self.exec_stmt(s2, last):
                    if ctl is not None:
                        raise Unsupported('control transfer out of a statement expression')
                    out.append((s3, Val(self.ty(e), ZERO)))
        return out

    def r_OffsetOfExpr(self, st, e):
        """offsetof(type, member designator) - clang's JSON dump carries neither the type nor the designator; they come from
        the preprocessed text (facts.offsetof_table) and are resolved against the record layout."""
        import re as _re
        td = facts.offsetof_table(self.ix.unit).get(e.get('id'))
        if td is None:
            raise Unsupported('offsetof: cannot recover type and designator at %s' % where(e))
        t = self.ix.parse_type(td[0])
        off = 0
        for part in _re.findall(r'[A-Za-z_]\w*|\[[^\]]*\]', td[1]):
            if part.startswith('['):
                if t.kind != 'arr':
                    raise Unsupported('offsetof: subscript of non-array')
                try:
                    idx = int(part[1:-1].strip().rstrip('uUlL'), 0)
                except ValueError:
                    raise Unsupported('offsetof: non-literal subscript')
                t = t.to
                off += idx * self.sizeof(t)
                continue
            if t.kind != 'rec':
                raise Unsupported('offsetof into non-record type')
            f = t.rec.field(part)
            if f is None or f[1] is None:
                raise Unsupported('offsetof: no field %s' % part)
            off += f[1]
            t = self.ix.parse_type(f[2])
        return [(st, Val(self.ty(e), C(off)))]

    def r_DeclRefExpr(self, st, e):
        rd = e['referencedDecl']
        if rd['kind'] == 'EnumConstantDecl':
            d = self.ix.decl.get(rd['id'])
            for c in d.get('inner', []):
                if c.get('kind') == 'ConstantExpr' and 'value' in c:
                    return [(st, Val(self.ty(e), C(int(c['value']))))]
            # implicit value: position in enum
            raise Unsupported('enum constant without value')
        if rd['kind'] == 'FunctionDecl':
            return [(st, Val(self.ty(e), ('fn', rd['name'])))]
        raise Unsupported('DeclRefExpr rvalue %s' % rd['kind'])

    def r_MemberExpr(self, st, e):
        # member of an rvalue struct (a function returning a small struct by value: `find(...).slot`): the value is
        # materialised in a temporary of the frame and read through the ordinary load path
        base = e['inner'][0]
        rec, name, foff, fty = self.ix.field_info(e['referencedMemberDecl'])
        bty = self.ty(base)
        out = []
        for s2, v in self.rval(st, base):
            if v.t[0] != 'blob':
                raise Unsupported('member of rvalue (not a struct value) at %s' % where(e))
            oid = 'tmp:rv:%s:%s:%s' % (self.fn, e.get('_line'), e.get('_col'))
            if oid in s2.objs:
                s2.objs.pop(oid)
            s2.new_obj(oid, 'local', self.sizeof(bty))
            s2.frames[-1]['#' + oid] = oid
            mem.store_bytes(s2, s2.objs[oid], ZERO, list(v.t[1]))
            val = self.load(s2, oid, C(foff), fty, e)
            if val is not None:
                out.append((s2, val))
        return out

    def r_ImplicitCastExpr(self, st, e):
        return self.cast(st, e)

    def r_CStyleCastExpr(self, st, e):
        return self.cast(st, e)

    def cast(self, st, e):
        ck = e.get('castKind')
        sub = e['inner'][0]
        ty = self.ty(e)
        if ck == 'LValueToRValue':
            out = []
            for s2, oid, off, lty in self.lval(st, sub):
                v = self.load(s2, oid, off, lty, e)
                if v is not None:
                    out.append((s2, v))
            return out
        if ck == 'ArrayToPointerDecay':
            return [(s2, Val(ty, ('ptr', oid, off)) if oid is not None else Val(ty, ZERO))
                    for s2, oid, off, _ in self.lval(st, sub)]
        if ck == 'FunctionToPointerDecay':
            return [(s2, Val(ty, v.t)) for s2, v in self.rval(st, sub)]
        if ck == 'ToVoid':
            return [(s2, Val(ty, ZERO)) for s2, v in self.rval(st, sub)]
        out = []
        for s2, v in self.rval(st, sub):
            if ck in ('NoOp', 'BitCast'):
                out.append((s2, Val(ty, v.t)))
            elif ck == 'NullToPointer':
                out.append((s2, Val(ty, ZERO)))
            elif ck == 'IntegralCast':
                out.append((s2, Val(ty, self.int_cast(s2, v, ty, e))))
            elif ck in ('IntegralToBoolean', 'PointerToBoolean'):
                out.append((s2, Val(ty, self.cmp(s2, 'ne', v.t, ZERO))))
            elif ck == 'BooleanToSignedIntegral':
                out.append((s2, Val(ty, v.t)))
            elif ck == 'IntegralToPointer':
                out.append((s2, Val(ty, v.t)))       # (uintptr_t) round trips keep the pointer term
            elif ck == 'PointerToIntegral':
                out.append((s2, Val(ty, v.t)))
            else:
                raise Unsupported('cast kind %s at %s' % (ck, where(e)))
        return out

    def int_cast(self, st, v, ty, node):
        t = v.t
        if t[0] in ('ptr', 'pset', 'fn'):
            return t
        if ty.is_bool():
            return self.cmp(st, 'ne', t, ZERO)
        return mem.fit_int(st, t, ty)

    # ---- comparisons
    def cmp(self, st, op, a, b):
        """Decide or build a boolean term.  op in eq ne lt le gt ge."""
        if op == 'gt':
            return self.cmp(st, 'lt', b, a)
        if op == 'ge':
            return self.cmp(st, 'le', b, a)
        a, b = st.canon(a), st.canon(b)
        if op in ('eq', 'ne'):
            for x, y in ((a, b), (b, a)):
                if x[0] in ('eq', 'ne', 'lt', 'le', 'lnot') and is_const(y) and y[1] in (0, 1):
                    pos = (op == 'ne') == (y[1] == 0)
                    return x if pos else negate(x)
        pa, pb = a[0] in ('ptr', 'pset', 'fn'), b[0] in ('ptr', 'pset', 'fn')
        if pa or pb:
            return self.cmp_ptr(st, op, a, b)
        if op in ('eq', 'ne'):
            res = None
            if a == b:
                res = 1
            elif st.known_neq(a, b):
                res = 0
            else:
                l = lin_of(a).add(lin_of(b), -1)
                if l.is_const():
                    res = 1 if l.k == 0 else 0
                elif st.entails_le0(Lin(dict(l.co), l.k + 1)) or st.entails_le0(l.scale(-1).add(Lin({}, 1))):
                    res = 0
            if res is None:
                if is_const(a) and not is_const(b):
                    a, b = b, a
                return (op, a, b)
            return C(res if op == 'eq' else 1 - res)
        if op == 'lt':
            if st.prove_lt(a, b):
                return ONE
            if st.prove_le(b, a):
                return ZERO
            return ('lt', a, b)
        if op == 'le':
            if st.prove_le(a, b):
                return ONE
            if st.prove_lt(b, a):
                return ZERO
            return ('le', a, b)
        raise Unsupported('cmp ' + op)

    def cmp_ptr(self, st, op, a, b):
        if op not in ('eq', 'ne'):
            if a[0] == 'ptr' and b[0] == 'ptr' and a[1] == b[1]:
                return self.cmp(st, op, a[2], b[2])
            raise Unsupported('relational pointer comparison')
        res = None
        if a == b:
            res = 1
        elif a[0] == 'ptr' and b[0] == 'ptr':
            if a[1] != b[1]:
                res = 0
            else:
                r = self.cmp(st, 'eq', a[2], b[2])
                if is_const(r):
                    res = r[1]
        elif (a[0] in ('ptr', 'fn') and b == ZERO) or (b[0] in ('ptr', 'fn') and a == ZERO):
            res = 0
        elif a[0] == 'pset' or b[0] == 'pset':
            ps, o = (a, b) if a[0] == 'pset' else (b, a)
            if o[0] != 'pset' and all(self.cmp_ptr(st, 'eq', x, o) == ZERO for x in ps[2]):
                res = 0
        if res is None:
            return (op, a, b)
        return C(res if op == 'eq' else 1 - res)

    def equality_pairs(self, st, a, b):
        """Byte pairs (p, q) such that a == b holds iff all p == q - for values assembled from bytes.  None when the terms are
        not of that shape (or it is the trivial single pair)."""
        a, b = st.canon(a), st.canon(b)

        def vs_zero(t, acc):
            t = st.canon(t)
            if is_const(t):
                return t[1] == 0 or acc.append((t, ZERO)) is None
            if t[0] == 'cat':
                for lane in t[1]:
                    if not vs_zero(lane, acc):
                        return False
                return True
            if t[0] == 'xor' and len(t) == 3:
                x, y = st.canon(t[1]), st.canon(t[2])
                if x[0] == 'cat' or y[0] == 'cat':
                    n = max(len(x[1]) if x[0] == 'cat' else 1, len(y[1]) if y[0] == 'cat' else 1)
                    for k in range(n):
                        acc.append((mk_byte(x, k), mk_byte(y, k)))
                else:
                    acc.append((x, y))
                return True
            if t[0] == 'or' and len(t) == 3:
                return vs_zero(t[1], acc) and vs_zero(t[2], acc)
            acc.append((t, ZERO))
            return True
        acc = []
        if b == ZERO or a == ZERO:
            t = a if b == ZERO else b
            if t[0] not in ('cat', 'xor', 'or'):
                return None
            if not vs_zero(t, acc):
                return None
        elif a[0] == 'cat' and b[0] == 'cat' and len(a[1]) == len(b[1]):
            acc = list(zip(a[1], b[1]))
        elif (a[0] == 'cat' and is_const(b)) or (b[0] == 'cat' and is_const(a)):
            t, c = (a, b) if a[0] == 'cat' else (b, a)
            if c[1] < 0 or c[1] >= (1 << (8 * len(t[1]))):
                return None
            acc = [(lane, C((c[1] >> (8 * k)) & 0xFF)) for k, lane in enumerate(t[1])]
            acc = [(p_, q_) for p_, q_ in acc if not (is_const(p_) and p_[1] == q_[1])]
            return acc if len(acc) >= 2 else None
        else:
            return None
        acc = [(p_, q_) for p_, q_ in acc if not (is_const(p_) and is_const(q_) and p_[1] == q_[1])]
        if len(acc) < 2 and not (b == ZERO or a == ZERO):
            return None
        return acc

    def assume(self, st, cond, truth):
        """Refine st with cond == truth; False if infeasible."""
        ok = self._assume(st, cond, truth)
        if ok and cond[0] == 'eq' and getattr(self, 'flag_terms', None) and cond in self.flag_terms:
            # the comparison itself was stored somewhere as a value (`acking = (count == 0)`): its value is known now
            try:
                st.union(cond, ONE if truth else ZERO)
            except Exception:
                pass
        return ok

    def _assume(self, st, cond, truth):
        k = cond[0]
        if k == 'c':
            return (cond[1] != 0) == truth
        if k == 'lnot':
            return self.assume(st, cond[1], not truth)
        if k == 'ne':
            return self.assume(st, ('eq', cond[1], cond[2]), not truth)
        if k == 'eq':
            a, b = cond[1], cond[2]
            if a[0] == 'pset' or b[0] == 'pset':
                ps, o = (a, b) if a[0] == 'pset' else (b, a)
                ps = st.canon(ps)
                if ps[0] != 'pset':
                    r = self.cmp(st, 'eq', ps, o)
                    return self.assume(st, r, truth)
                if truth:
                    for x in ps[2]:
                        if self.cmp_ptr(st, 'eq', x, o) != ZERO:
                            st.eq[ps] = x if x[0] != 'pset' else o
                            st.touch()
                            return self.implied(st, ps)
                    return False
                rest = tuple(x for x in ps[2] if self.cmp_ptr(st, 'eq', x, o) != ONE)
                if not rest:
                    return False
                st.eq[ps] = rest[0] if len(rest) == 1 else ('pset', ps[1], rest)
                st.touch()
                return self.implied(st, ps)
            if a[0] in ('ptr', 'fn') or b[0] in ('ptr', 'fn'):
                r = self.cmp_ptr(st, 'eq', a, b)
                if is_const(r):
                    return (r[1] != 0) == truth
                if truth and a[0] == 'ptr' and b[0] == 'ptr':
                    return st.union(a[2], b[2])
                if not truth and a[0] == 'ptr' and b[0] == 'ptr' and a[1] == b[1]:
                    return st.add_neq(a[2], b[2])
                # an opaque pointer value (e.g. read from a summary node) compared with a known pointer
                for x, y in ((a, b), (b, a)):
                    if x[0] == 'sym' and y[0] in ('ptr', 'fn'):
                        if truth:
                            st.eq[x] = y
                            st.touch()
                        else:
                            st.neq.add(frozenset((x, y)))
                return True
            pairs = self.equality_pairs(st, a, b)
            if pairs is not None:
                # an equality between values assembled from bytes (integers built with shifts, XOR / OR folds compared with
                # zero): it holds iff every byte pair is equal
                if truth:
                    ok = True
                    for p_, q_ in pairs:
                        ok = st.union(p_, q_) and ok
                    return ok
                open_ = [(p_, q_) for p_, q_ in pairs if st.canon(p_) != st.canon(q_)]
                if not open_:
                    return False
                if len(open_) == 1:
                    return st.add_neq(open_[0][0], open_[0][1])
                if all(st.known_neq(p_, q_) is False and st.canon(p_) == st.canon(q_) for p_, q_ in pairs):
                    return False
                got = set(frozenset((st.canon(p_), st.canon(q_))) for p_, q_ in pairs)
                for pname, tp in (getattr(self, 'tracked_preds', None) or {}).items():
                    # (a differing pair among some of the predicate's pairs - the address compared in two halves - settles it too)
                    if got and got <= set(frozenset((st.canon(a_), st.canon(b_))) for a_, b_ in tp):
                        st.tags = dict(st.tags)
                        st.tags['pred:' + pname] = False
                # "some byte pair differs" as a disequality of the two values the pairs are the bytes of
                try:
                    wa, wb = mk_cat(tuple(p_ for p_, _q in pairs)), mk_cat(tuple(q_ for _p, q_ in pairs))
                    if st.canon(wa) != st.canon(wb):
                        st.add_neq(wa, wb)
                except Exception:
                    pass
                return st.add_neq(a, b)
            if truth:
                return st.union(a, b)
            # a != b where the path already knows a >= b (an unsigned countdown compared with 0): a >= b + 1
            try:
                ca, cb = st.canon(a), st.canon(b)
                if ca[0] not in ('ptr', 'pset', 'fn') and cb[0] not in ('ptr', 'pset', 'fn'):
                    d_ = lin_of(ca).add(lin_of(cb), -1)
                    if not d_.is_const() and len(d_.co) >= 2:
                        if st.entails_le0(d_.scale(-1)):
                            g_ = d_.scale(-1)
                            g_.k += 1
                            st.add_fact(g_)
                        elif st.entails_le0(d_):
                            g_ = Lin(dict(d_.co), d_.k + 1)
                            st.add_fact(g_)
            except Exception:
                pass
            return st.add_neq(a, b)
        if k in ('lt', 'le'):
            a, b = cond[1], cond[2]
            strict = (k == 'lt')
            if not truth:
                a, b, strict = b, a, not strict      # !(a<b) == b<=a ; !(a<=b) == b<a
            da, db = st.dom(a), st.dom(b)
            s = 1 if strict else 0
            if not st.refine(a, Dom(-INF, db.hi - s)):
                return False
            if not st.refine(b, Dom(da.lo + s, INF)):
                return False
            l = lin_of(st.canon(a)).add(lin_of(st.canon(b)), -1)
            l.k += s
            if l.is_const():
                return l.k <= 0
            if len(l.co) == 1:
                (atom, c), = l.co.items()
                # c*atom + k <= 0
                if c > 0:
                    bound = (-l.k) // c
                    if not st.refine(atom, Dom(-INF, bound)):
                        return False
                else:
                    bound = -((-l.k) // (-c)) if (-l.k) % (-c) == 0 else -((-l.k) // (-c))
                    # atom >= ceil(k / -c)
                    import math
                    bound = -((-l.k) // (-c)) if False else math.ceil(l.k / (-c)) if abs(l.k) < (1 << 52) else (l.k + (-c) - 1) // (-c)
                    if not st.refine(atom, Dom(bound, INF)):
                        return False
                if atom[0] not in ('in', 'sym'):
                    st.add_fact(l)
            else:
                # infeasible if the negation is already entailed
                neg = l.scale(-1)
                neg.k += 1
                if st.facts and st.entails_le0(neg):
                    return False
                st.add_fact(l)
            return True
        # arbitrary integer term: truth means != 0
        if truth:
            return st.add_neq(cond, ZERO)
        return st.union(cond, ZERO) if cond[0] not in ('ptr', 'fn') else False

    def implied(self, st, ps):
        """Entry-state invariants of the form `pointer field is NULL => counter field is 0` (declared by the harness in
        tags['implications'], proved preserved by the rule that declares them): apply once the pointer is resolved."""
        for pterm, when, atom, dom in st.tags.get('implications', ()):
            if pterm == ps and st.canon(ps) == when:
                if not st.refine(atom, dom):
                    return False
        return True

    def branch(self, st, v):
        """-> (state_true|None, state_false|None) for condition value v."""
        t = v.t
        if t[0] not in ('eq', 'ne', 'lt', 'le', 'lnot'):
            t = self.cmp(st, 'ne', t, ZERO)
        if is_const(t):
            return (st, None) if t[1] else (None, st)
        s_t, s_f = st, st.fork()
        ok_t = self.assume(s_t, t, True)
        ok_f = self.assume(s_f, t, False)
        if ok_t:
            s_t.path = s_t.path + ((short(t), True),)
        if ok_f:
            s_f.path = s_f.path + ((short(t), False),)
        return (s_t if ok_t else None, s_f if ok_f else None)
