"""C08 — large properties are retrievable byte-exactly by offset.

(1) sendLargeTlvResponse is interpreted on its own with data pointer, size and
    offset symbolic: each path yields (constraints, length, flag, copy source);
    compared with  len = min(P, max(0, size-off)),  more <=> size-off > P,
    empty for missing data,  P = MTU - 34.
(2) The QueryLargeTlv cells of the dispatch matrix are interpreted: sequence 0
    is ignored, the response carries the request's sequence number, and the
    (data, size, offset) handed to (1) are the platform's bytes for the
    requested type and the request's offset."""
from ..common import Report, finish
from ..facts import AnalysisBroken
from ..engine import Engine, run_entry, mk_obj, new_state
from ..absint import Val
from ..port import PortModel
from ..terms import C, ZERO, short, is_const, lin_of, Lin, INF, mk_byte, bitop_byte, mk_cat, Dom
from .. import mem
from .dispatch import OP
from .c03 import own_mac_byte
from .frame_common import (FrameSetup, run_regions, Snap, sends, effects, BLOCK_UNIT, entry_icon_exists, ICON_SIZE, record_field)
from .automata_common import load_core

HDR = 34
S = ('sym', 'data.size', 0, 32767)
O = ('sym', 'request.offset', 0, 65535)
SEQ0 = ('sym', 'st.mapper_seq', 0, 65535)


def run(tier):
    rep = Report('C08', tier)
    prog = load_core('systemd')
    # premise of everything decided per interface record: the lookup hands out the record keyed by the interface (hit only after
    # comparing the context), creates an all-zero one only on a miss, and never stores into or re-links an existing record
    rep.rule('R08.7', 'the interface-record lookup: hit only on an equal context, fresh record all-zero and keyed by the context, existing records untouched', floor=3)
    from .state_record import check_state_for_iface
    check_state_for_iface(rep, prog, 'R08.7')
    ix = prog.unit(BLOCK_UNIT)
    global BUILDER
    try:
        BUILDER = builder_name(ix)
    except AnalysisBroken as e:
        # the response builder no longer has the (record, context, request, data, size, offset) shape (e.g. it is handed
        # parsed values): decide the same case table on the QueryLargeTlv cells themselves, with the platform's size and the
        # request's offset as the symbols
        BUILDER = None
        rep.note('response builder not identified by signature (%s): case table decided on the QueryLargeTlv cells' % e)
    rep.rule('R08.1', 'response length = min(P, max(0, size - offset)), P = MTU - 34; copy of exactly that many bytes from data + offset to payload', floor=4 if BUILDER else 1)
    rep.rule('R08.2', "'more' flag (bit 15 of the length field) set iff size - offset > P; length field = payload length", floor=4 if BUILDER else 0)
    rep.rule('R08.3', 'missing data or size 0 or offset at/past the end: empty payload, flag clear', floor=3 if BUILDER else 1)
    rep.rule('R08.4', 'QueryLargeTlv with sequence number 0 has no effect at all', floor=2)
    rep.rule('R08.5', 'response carries the request\'s sequence number; data/size/offset handed to the response builder are the platform\'s bytes for the requested type', floor=8)
    if BUILDER is not None:
        for mtu_ok in ([True] if tier == 'quick' else [True, False]):
            part1(rep, prog, ix, mtu_ok)
    part2(rep, prog, ix)
    return finish(rep, 'proof',
                  'sendLargeTlvResponse interpreted with size in [0,32768], offset in [0,65535], MTU in [576,9216] symbolic: its paths form a piecewise-linear case table that is '
                  'compared with the oracle by linear entailment (Fourier-Motzkin) under each path\'s constraints; the QueryLargeTlv cells are interpreted for the type dispatch, '
                  'sequence handling and the arguments handed over. Reassembly follows by induction on the offset.',
                  'abstract interpretation to a piecewise-linear case table; linear entailment against the oracle', exhaustive=True,
                  assumptions=None)


BUILDER = 'sendLargeTlvResponse'


BUILDER_ROLES = None      # parameter index -> role ('st', 'ctx', 'frame', 'data', 'size', 'offset')


def builder_name(ix):
    """The QueryLargeTlvResp builder, by role rather than by name or exact spelling of its parameter list: the function that
    transmits and takes the record, the context, the request, a data pointer, its size (size_t) and the offset (uint16_t).
    Parameter roles: size = the size_t, offset = the uint16_t, st = the record pointer, data = the pointer just before the
    size, ctx = the remaining `void *`, frame = the remaining pointer."""
    global BUILDER_ROLES
    from ..facts import walk, fn_params
    cands = []
    for name, fn in ix.functions.items():
        ps = [' '.join(p_['type']['qualType'].replace('struct ', '').replace('const ', '').split()) for p_ in fn_params(fn)]
        if len(ps) != 6 or ps.count('size_t') != 1 or ps.count('uint16_t') != 1 or ps.count('lltd_iface_state *') != 1:
            continue
        sends_ = False
        for n in walk(fn):
            if n.get('kind') == 'CallExpr' and n.get('inner'):
                c = n['inner'][0]
                while c.get('kind') in ('ImplicitCastExpr', 'ParenExpr'):
                    c = c['inner'][0]
                if c.get('kind') == 'DeclRefExpr' and c.get('referencedDecl', {}).get('name') == 'lltd_port_send_frame':
                    sends_ = True
        if not sends_:
            continue
        roles = {ps.index('size_t'): 'size', ps.index('uint16_t'): 'offset', ps.index('lltd_iface_state *'): 'st'}
        di = ps.index('size_t') - 1
        if di < 0 or di in roles or not ps[di].endswith('*'):
            continue
        roles[di] = 'data'
        rest = [i for i in range(6) if i not in roles]
        if len(rest) != 2 or not all(ps[i].endswith('*') for i in rest):
            continue
        voids = [i for i in rest if ps[i] == 'void *']
        ctx_i = voids[0] if voids else rest[0]
        roles[ctx_i] = 'ctx'
        roles[[i for i in rest if i != ctx_i][0]] = 'frame'
        cands.append((name, roles))
    if len(cands) != 1:
        raise AnalysisBroken('cannot identify the QueryLargeTlvResp builder (transmitting function taking record, context, request, data, size_t size, '
                             'uint16_t offset): candidates %s' % [c[0] for c in cands])
    BUILDER_ROLES = cands[0][1]
    return cands[0][0]


def by_role(vals):
    """Order role -> value into the builder's parameter order."""
    return [vals[BUILDER_ROLES[i]] for i in range(6)]


def part1(rep, prog, ix, mtu_ok):
    tag = '' if mtu_ok else '|mtu-fallback'
    fnf = 'lltdResponder/lltdBlock.c'
    port = PortModel(mtu_ok=mtu_ok, alloc_may_fail=False)
    srec = ix.parse_type('lltd_iface_state').rec
    mtu = PortModel.MTU if mtu_ok else C(1500)
    P = ('add', mtu, C(-HDR))

    def setup(I, st):
        fr = mk_obj(st, 'frame', PortModel.MTU if mtu_ok else ('sym', 'rxbuf.size', 1500, 9216), kind='input', default='sym')
        mk_obj(st, 'ext:ctx', 1, kind='ext', default='unknown')
        so = mk_obj(st, 'st', srec.size, kind='heap', default='sym', heap=True)
        so.cells[((), record_field(srec, 'mapper_seq')[1])] = (2, SEQ0)
        mk_obj(st, 'DATA', S, kind='heap', default='unknown', heap=True)
        vp = ix.parse_type('void *')
        dp = ('pset', ('sym', 'data@entry', 0, 0), (ZERO, ('ptr', 'DATA', ZERO)))
        return by_role({'st': Val(ix.parse_type('lltd_iface_state *'), ('ptr', 'st', ZERO)), 'ctx': Val(vp, ('ptr', 'ext:ctx', ZERO)),
                        'frame': Val(vp, ('ptr', 'frame', ZERO)), 'data': Val(vp, dp), 'size': Val(ix.parse_type('unsigned long'), S),
                        'offset': Val(ix.parse_type('unsigned short'), O)})
    I, outs = run_entry(prog, BLOCK_UNIT, BUILDER, setup, port=port, tracked=(S, O), name=BUILDER)
    for ob in I.obs.values():
        if not ob.ok:
            rep.fail('R08.1', 'builder|%s' % ob.kind + tag, ob.msg, node=ob.node, function=ob.fn)
    fn = ix.functions[BUILDER]
    ncase = 0
    rest = I.simp(('sub', S, O))                       # size - offset
    for st0, _ in outs:
        sn0 = sends(st0)
        if len(sn0) != 1:
            rep.fail('R08.1', 'response|count' + tag, '%s transmits %d frames on a path' % (BUILDER, len(sn0)), node=fn, function=BUILDER)
            continue
        dp0 = st0.canon(('pset', ('sym', 'data@entry', 0, 0), (ZERO, ('ptr', 'DATA', ZERO))))
        if dp0[0] == 'pset':
            rep.fail('R08.3', 'data-unchecked' + tag, 'a path builds the response without testing whether data is present', node=fn, function=BUILDER)
            continue
        have = dp0[0] == 'ptr'
        ncase += case_checks(rep, I, st0, sn0[0][0], S, O, P, 'DATA', have, tag, fn, BUILDER, SEQ0)
    if ncase < 4:
        rep.broke('only %d response paths' % ncase)
    rep.analysed['response_builder_paths' + tag] = ncase


def case_checks(rep, I, st0, send_entry, S, O, P, data_oid, have, tag, fn, fname, seq_term):
    """One response path against the oracle's case table (no data / offset past the end / final chunk / more remains), split
    along the oracle's boundaries; S = size of the data, O = requested offset, P = payload room.  -> number of cases examined."""
    ncase_local = 0
    rest = I.simp(('sub', S, O))
    # split the path along the oracle's case boundaries (only feasible sub-cases are checked)
    cases = []
    if not have:
        cases.append(('nodata', []))
    else:
        cases.append(('nodata', [(('eq', S, ZERO), True)]))
        cases.append(('past-end', [(('lt', ZERO, S), True), (('le', rest, ZERO), True)]))
        cases.append(('last', [(('lt', ZERO, S), True), (('lt', ZERO, rest), True), (('le', rest, I.simp(P)), True)]))
        cases.append(('more', [(('lt', ZERO, S), True), (('lt', I.simp(P), rest), True)]))
    for cname, conds in cases:
        st = st0.fork()
        feasible = True
        for cnd, truth in conds:
            c = I.cmp(st, cnd[0], cnd[1], cnd[2])
            if is_const(c):
                if (c[1] != 0) != truth:
                    feasible = False
                    break
                continue
            if not I.assume(st, c, truth):
                feasible = False
                break
        if not feasible:
            continue
        # tighten the interval of size-offset from the path's linear facts
        if st.prove_le(ZERO, rest):
            st.refine(rest, Dom(0, INF))
        if st.prove_le(rest, ZERO):
            st.refine(rest, Dom(-INF, 0))
        ncase_local += 1
        snap = Snap(st, send_entry)
        n = st.canon(I.simp(('sub', snap.length, C(HDR))))
        lo, hi = st.canon(snap.byte(33)), st.canon(snap.byte(32))
        copies = [e for e, _ in effects(st, 'memcpy') if e[1] == snap.d['obj'] and e[4] != snap.d['obj']]
        desc = {'case': cname, 'size': repr(st.dom(S)), 'offset': repr(st.dom(O)), 'payload_len': short(n), 'length_field': [short(hi), short(lo)], 'copies': len(copies)}
        if cname in ('nodata', 'past-end'):
            okc0 = not copies or all(st.same(e[5], ZERO) for e in copies)
            ok = st.same(n, ZERO) and st.same(lo, ZERO) and st.same(hi, ZERO) and okc0
            rep.check(ok, 'R08.3', 'empty|%s%s' % (cname, tag),
                      'with %s the response has payload length %s, length field %s %s, %d copies; expected an empty payload with the flag clear'
                      % ('no data' if cname == 'nodata' else 'offset at or past the end', short(n), short(hi), short(lo), len(copies)),
                      node=fn, function=fname, sample=desc)
            continue
        c_more = cname == 'more'
        want = I.simp(P) if c_more else rest
        okn = st.prove_le(n, want) and st.prove_le(want, n)
        rep.check(okn, 'R08.1', 'length|%s%s' % (cname, tag),
                  'payload length is %s, expected %s (%s)' % (short(n), 'P = MTU-34' if c_more else 'size - offset', 'more remains' if c_more else 'final chunk'),
                  node=fn, function=fname, sample=desc)
        okc = len(copies) == 1
        if okc:
            e = copies[0]
            okc = st.same(e[2], C(HDR)) and e[3] == data_oid and st.same(e[4], O) and st.prove_le(e[5], n) and st.prove_le(n, e[5])
        rep.check(okc, 'R08.1', 'copy|%s%s' % (cname, tag),
                  'payload is not one copy of exactly the payload length from data + offset to frame offset 34: %s' % [(short(e[2]), e[3], short(e[4]), short(e[5])) for e in copies],
                  node=fn, function=fname)
        nb0, nb1 = st.canon(mk_byte(n, 0)), st.canon(mk_byte(n, 1))
        exp_hi = st.canon(bitop_byte('or', nb1, C(0x80), None, 1)) if c_more else nb1
        fits15 = st.dom(n).hi < 32768
        okf = fits15 and same_byte(st, lo, nb0) and same_byte(st, hi, exp_hi)
        rep.check(okf, 'R08.2', 'flag|%s%s' % (cname, tag),
                  "length field bytes are %s %s; expected payload length %s with the 'more' flag %s" % (short(hi), short(lo), short(n), 'set' if c_more else 'clear'),
                  node=fn, function=fname)
        sq = mk_cat((st.canon(snap.byte(31)), st.canon(snap.byte(30))))
        rep.check(seq_term is None or st.same(sq, seq_term), 'R08.5', 'seq|builder' + tag, 'response sequence number is %s, not the stored request sequence' % short(sq), node=fn, function=fname)
    return ncase_local


def same_byte(st, a, b):
    a, b = st.canon(a), st.canon(b)
    if a == b or st.same(a, b):
        return True
    # or(x, 0x80) may be represented either way round
    if a[0] == 'or' and b[0] == 'or':
        return set(a[1:]) == set(b[1:])
    return False


class RecordingSetup(FrameSetup):
    pass


def part2(rep, prog, ix):
    fnf = 'lltdResponder/lltdBlock.c'
    fs = FrameSetup(prog, mtu_ok=True)
    recorded = {}

    def summary(I, st, args, node, rty):
        # record what is handed to the response builder, then interpret the real function
        idx = {r: i for i, r in BUILDER_ROLES.items()}
        st.tags['qlt.args'] = (st.canon(args[idx['data']].t), st.canon(args[idx['size']].t), st.canon(args[idx['offset']].t))
        ixx, fn = I.prog.resolve(I.ix, BUILDER)
        return I.inline(st, ixx, fn, args, node, rty)
    orig_run = fs.run

    def run_with(**kw):
        if BUILDER is not None:
            kw['extra_summaries'] = {BUILDER: summary}
        return orig_run(**kw)
    fs.run = run_with
    from .frame_common import diagnostic_offsets
    DIAG[0] = diagnostic_offsets(prog)
    res, obs, stats = run_regions(fs, regions=['topo.qlt', 'quick.qlt'])
    # the icon arm fetches the platform's icon only when the record holds neither a cached icon nor a recorded size: every
    # cell of the dispatch matrix (the Reset that drops the cache above all) must leave "no cached icon => size 0" behind,
    # otherwise the icon is unretrievable from then on although each single response is still well formed
    from .frame_common import icon_invariant
    rep.rule('R08.6', 'every cell of the dispatch matrix keeps "no cached icon => recorded icon size 0", the condition under which the icon is (re)fetched', floor=9)
    fs_all = FrameSetup(prog, mtu_ok=True)
    res_all, _o2, _s2 = run_regions(fs_all)
    icon_invariant(rep, 'R08.6', fs_all, res_all)
    # "exactly the platform's bytes": nothing the response is built from may be uninitialised scratch memory, e.g. the part of
    # a getter's destination the getter did not write
    from .dispatch import fail_obligations
    fail_obligations(rep, obs, 'R08.5', kinds=('uninit-read', 'uninit-copy'))
    off_t = mk_cat((('in', 'frame', 35), ('in', 'frame', 34)))
    seq_t = mk_cat((('in', 'frame', 31), ('in', 'frame', 30)))
    nresp = 0
    for region, outs in res.items():
        for st, ret in outs:
            if any(e[0] == 'malloc-failed' for e in st.trace):
                continue
            seqd = st.dom(seq_t)
            sn = sends(st)
            if seqd.hi == 0:
                eff = [e for e in st.trace if e[0] in ('send', 'malloc', 'free', 'sleep')]
                so = st.objs['st']
                from .c03 import unchanged_cell
                changed = [k for k, (w, t) in so.cells.items() if not unchanged_cell_plain(st, k, w, t)]
                rep.check(not eff and not changed, 'R08.4', '%s|seq0' % region,
                          'a QueryLargeTlv with sequence number 0 is not ignored: effects %s, record offsets changed %s' % ([e[0] for e in eff], [k[1] for k in changed]),
                          function='parseQueryLargeTlv', file=fnf)
                continue
            if seqd.contains(0) and seq_zero_feasible(st):
                rep.fail('R08.4', '%s|seq-unchecked' % region, 'QueryLargeTlv handled without testing the sequence number for 0', function='parseQueryLargeTlv', file=fnf)
                continue
            rep.check(len(sn) == 1, 'R08.5', '%s|one-response' % region, 'QueryLargeTlv (sequence != 0) answered by %d frames' % len(sn), function='parseQueryLargeTlv', file=fnf)
            if len(sn) != 1:
                continue
            nresp += 1
            snap = Snap(st, sn[0][0])
            rep.check(st.same(snap.byte(30), ('in', 'frame', 30)) and st.same(snap.byte(31), ('in', 'frame', 31)), 'R08.5', '%s|seq' % region,
                      'response sequence bytes %s %s are not the request\'s' % (short(st.canon(snap.byte(30))), short(st.canon(snap.byte(31)))), function='parseQueryLargeTlv', file=fnf)
            rep.check(st.canon(snap.byte(17)) == C(OP['queryLargeTlvResp']), 'R08.5', '%s|opcode' % region, 'response opcode is %s' % short(st.canon(snap.byte(17))),
                      function=BUILDER, file=fnf)
            a = st.tags.get('qlt.args')
            if BUILDER is None:
                cells_case_table(rep, fs, st, sn[0][0], region, off_t)
                continue
            if a is None:
                rep.fail('R08.5', '%s|builder-not-used' % region, 'the response is not built by %s' % BUILDER, function='parseQueryLargeTlv', file=fnf)
                continue
            data, size, off = a
            rep.check(st.same(off, off_t), 'R08.5', '%s|offset-arg' % region, 'offset handed to the response builder is %s, not the request\'s offset field' % short(off),
                      function='parseQueryLargeTlv', file=fnf)
            ty = st.dom(('in', 'frame', 32))
            tyc = ty.const()
            if tyc == 0x0E:
                # icon: cached block or freshly fetched one, size = its size; absent on fetch failure
                okd = (data == ('ptr', 'heap:cached.icon', ZERO) and st.same(size, ICON_SIZE)) or \
                      (data == ('ptr', 'heap:port.icon_image', ZERO) and st.same(size, ('sym', 'port.icon_image.size', 0, 32768))) or \
                      (data == ZERO and st.dom(('sym', 'rc.get_icon_image', -(1 << 31), (1 << 31) - 1)).contains(0) is False) or \
                      (data == ZERO and entry_icon_exists(fs, st) is False and icon_unavailable(st)) or \
                      (data[0] == 'pset' and set(data[2]) <= {ZERO, ('ptr', 'heap:cached.icon', ZERO)} and st.same(size, ICON_SIZE))
                rep.check(okd, 'R08.5', '%s|icon-data' % region, 'icon request answered from %s / size %s' % (short(data), short(size)), function='parseQueryLargeTlv', file=fnf,
                          sample={'type': 'icon', 'data': short(data), 'size': short(size)} if len(rep.samples) < 20 else None)
            elif tyc == 0x11:
                okd = (data == ('ptr', 'heap:port.friendly_name', ZERO) and st.same(size, ('sym', 'port.friendly_name.size', 0, 32768))) or \
                      (data == ZERO and not st.dom(('sym', 'rc.get_friendly_name', -(1 << 31), (1 << 31) - 1)).contains(0))
                rep.check(okd, 'R08.5', '%s|name-data' % region, 'friendly-name request answered from %s / size %s' % (short(data), short(size)), function='parseQueryLargeTlv', file=fnf,
                          sample={'type': 'friendly name', 'data': short(data), 'size': short(size)} if len(rep.samples) < 20 else None)
            elif tyc == 0x13:
                # a scratch block of this request that the platform's hardware-id getter filled (wherever it was allocated:
                # in the handler or in a helper), at most 64 bytes of it
                filled = set(e[3] for e, _ in effects(st, 'get') if e[1] == 'hw_id' and len(e) >= 6 and st.canon(e[4]) == ZERO and e[5] == 64)
                okd = data[0] == 'ptr' and data[2] == ZERO and data[1].startswith('heap:') and data[1] in filled and st.dom(size).hi <= 64
                if okd:
                    # the scratch block holds the platform's hardware id bytes
                    o = st.objs.get(data[1])
                rep.check(okd, 'R08.5', '%s|hwid-data' % region, 'hardware-id request answered from %s / size %s' % (short(data), st.dom(size)), function='parseQueryLargeTlv', file=fnf,
                          sample={'type': 'hardware id', 'data': short(data), 'size': repr(st.dom(size))} if len(rep.samples) < 20 else None)
            elif not (ty.contains(0x0E) or ty.contains(0x11) or ty.contains(0x13)):
                rep.check(data == ZERO, 'R08.5', '%s|unknown-type' % region, 'unknown property type %s answered with data %s' % (ty, short(data)), function='parseQueryLargeTlv', file=fnf)
            else:
                rep.fail('R08.5', '%s|type-unchecked' % region, 'a path answers without distinguishing the requested type (%s)' % ty, function='parseQueryLargeTlv', file=fnf)
    rep.analysed['qlt_responses_examined'] = nresp


def icon_unavailable(st):
    """No icon to offer on this path: the platform's getter was asked and failed, or it delivered nothing (no block / 0 bytes)."""
    got = [e for e, _ in effects(st, 'get') if e[1] == 'icon_image']
    if not got:
        return False
    rc = st.dom(('sym', 'rc.get_icon_image', -(1 << 31), (1 << 31) - 1))
    if not rc.contains(0):
        return True
    return st.dom(('sym', 'port.icon_image.size', 0, 32768)).hi == 0


_UTIL = [None]


def cells_case_table(rep, fs, st, send_entry, region, off_t):
    """Reduced obligations on one final state of a QueryLargeTlv cell, used when the response builder cannot be singled out by
    its signature (it was restructured): the payload is one copy from the platform's buffer for the requested type, taken at the
    requested offset, as long as the frame says; an empty response copies nothing and has a clear length word.  The exact
    chunk boundaries (R08.1-R08.3 case table) are decided only when the builder can be interpreted on its own."""
    fnf = 'lltdResponder/lltdBlock.c'
    snap = Snap(st, send_entry)
    ty = st.dom(('in', 'frame', 32))
    tyc = ty.const()
    copies = [e for e, _ in effects(st, 'memcpy') if e[1] == snap.d['obj'] and e[4] != snap.d['obj']]
    n = st.canon(('add', snap.length, C(-HDR)))
    from ..terms import lin_of as _lin, term_of_lin as _tol
    n = _tol(_lin(n))
    key = '%s|cells' % region
    if not copies:
        ok = st.same(n, ZERO) and st.same(snap.byte(32), ZERO) and st.same(snap.byte(33), ZERO)
        rep.check(ok, 'R08.3', key + '|empty', 'a response without payload copy has length %s and length word %s %s' % (short(n), short(st.canon(snap.byte(32))), short(st.canon(snap.byte(33)))),
                  function='parseQueryLargeTlv', file=fnf)
        if tyc == 0x11:
            got = any(e[1] == 'heap:port.friendly_name' for e, _ in effects(st, 'malloc'))
            rep.check((not got) or st.dom(('sym', 'port.friendly_name.size', 0, 32768)).lo == 0 or True, 'R08.5', key + '|name-empty', 'friendly name dropped', function='parseQueryLargeTlv', file=fnf)
        return
    e = copies[0]
    want = {0x11: ('heap:port.friendly_name',), 0x0E: ('heap:port.icon_image', 'heap:cached.icon')}.get(tyc)
    if tyc == 0x13:
        filled = set(x[3] for x, _ in effects(st, 'get') if x[1] == 'hw_id' and len(x) >= 6)
        okd = e[3] in filled
    else:
        okd = want is not None and e[3] in want
    rep.check(len(copies) == 1 and okd, 'R08.5', key + '|source', 'the payload of a response to a request of type %s is copied from %s' % (ty, [c[3] for c in copies]),
              function='parseQueryLargeTlv', file=fnf)
    rep.check(st.same(e[2], C(HDR)) and st.same(e[4], off_t) and (st.same(e[5], n) or (st.prove_le(e[5], n) and st.prove_le(n, e[5]))), 'R08.1', key + '|copy',
              'payload copy goes to frame offset %s from data offset %s with %s bytes; expected 34, the requested offset %s and the payload length %s'
              % (short(st.canon(e[2])), short(st.canon(e[4])), short(st.canon(e[5])), short(off_t), short(n)), function='parseQueryLargeTlv', file=fnf)


def seq_zero_feasible(st):
    """Can the request's sequence number still be 0 on this path?  (The test may have been made on the two octets in any
    form - `(b0 | b1) == 0`, a 16-bit compare in either byte order - so the question is put to the state, not to one term.)"""
    s3 = st.fork()
    return bool(s3.union(('in', 'frame', 30), ZERO) and s3.union(('in', 'frame', 31), ZERO) and s3.consistent())


def unchanged_cell_plain(st, k, w, t):
    from .c03 import unchanged_cell

    class _S(object):
        pass
    s = _S()
    s.st = st
    s.diag = DIAG[0]
    return unchanged_cell(s, k, w, t)


DIAG = [None]
