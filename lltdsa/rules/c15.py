"""C15 — the session automaton follows the LLTD session life-cycle.
Same method as C14: constructor table + switch function interpreted abstractly,
complete relation (4 states x events 0..7 x {fresh, expired}) compared with the oracle."""
from ..common import Report, finish
from .. import oracle
from .automata_common import load_core, Automaton
from .c14 import check_relation


def run(tier):
    rep = Report('C15', tier)
    prog = load_core('systemd')
    A = Automaton(prog, 'init_automata_session', 'switch_state_session')
    fn = A.ix.functions[A.ctor]
    rep.rule('R15.1', 'complete transition relation of switch_state_session equals the oracle (4 states x events 0..7 x {fresh,expired})', floor=64)
    rep.rule('R15.2', 'every state has a non-zero inactivity timeout (expiry returns to Nascent)', floor=4)
    S = oracle.SESS
    roles = {'nascent': A.initial}

    def target(frm, w):
        t = None
        for f, to, wi in A.rows:
            if f == frm and wi == w:
                t = to
        return t
    for role, ev in (('pending', 'noack'), ('complete', 'acking'), ('temporary', 'conflicting')):
        t = target(A.initial, S[ev])
        if t is None or t in roles.values():
            rep.fail('R15.1', 'nascent|%s' % ev, 'a %s Discover does not move Nascent to a distinct %s state' % (ev, role),
                     node=fn, function=A.ctor)
        else:
            roles[role] = t
    if len(roles) == 4:
        names = {v: k for k, v in S.items()}
        cells = check_relation(rep, A, roles, oracle.session_step, 0, 7, 'R15.1', names, 'C15')
        for role, s in roles.items():
            T = A.timeouts[s]
            rep.check(T > 0, 'R15.2', '%s|timeout' % role, 'state %s has no inactivity timeout (0): it never expires back to Nascent' % role,
                      node=fn, function=A.ctor)
        from .automata_common import automaton_writers
        rep.rule('R15.3', 'who-may-write the automaton objects (current state, time stamp, tables): only constructors, switch functions and the tick', floor=6)
        automaton_writers(rep, prog, 'R15.3')
        rep.analysed.update({'table_rows': A.rows, 'timeouts': A.timeouts, 'roles': roles, 'cells_compared': cells})
    return finish(rep, 'proof',
                  'Constructor table and switch function interpreted abstractly (event = every int, elapsed symbolic); the complete relation '
                  'over 4 states x events 0..7 x {timeout fresh, expired} is compared with the oracle written from the property text; '
                  'values outside the alphabet are unconstrained.',
                  'abstract interpretation of real constructor/switch code; relation vs oracle', exhaustive=True)
