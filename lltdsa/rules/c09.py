"""C09 — a topology-discovery Reset returns the responder to fresh-start behaviour.

Non-interference argument in three checked steps:
 1. a fresh interface record is all-zero (lltd_state_for_iface interpreted on its own);
 2. in the (ToS 0, Reset) cell every field of the record (list taken from the
    layout) is afterwards either its fresh value or left STALE;
 3. from the post-Reset state (fresh fields, STALE symbols elsewhere) every
    dispatch cell is interpreted: no STALE symbol reaches a branch condition or
    any byte/argument of a port effect, and whenever the mapper becomes known
    the STALE fields have been overwritten.
So the post-Reset state is indistinguishable from fresh for every continuation."""
from ..common import Report, finish
from ..facts import AnalysisBroken
from ..engine import Engine
from ..terms import C, ZERO, short, is_const, atoms_of, mk_byte, Dom
from .. import mem
from .dispatch import analyse, OP, fail_obligations
from .frame_common import live_heap, FrameSetup, run_regions, REGIONS, sends, effects, Snap, KNOWN, TOS, OPC
from .automata_common import load_core
from .state_record import check_state_for_iface


def stale_atoms(t):
    return [a for a in atoms_of(t) if a[0] == 'in' and a[1] == 'stale']


def constrained_stale(st):
    out = []
    for t, d in list(st.env.items()):
        sa = stale_atoms(t)
        if not sa:
            continue
        saved = st.env.pop(t)
        try:
            nat = st.dom(t)
        finally:
            st.env[t] = saved
        if d.meet(nat) != nat:
            out.append('%s in %s' % (short(t), d))
    for t, r in st.eq.items():
        if stale_atoms(t) or stale_atoms(r):
            out.append('%s == %s' % (short(t), short(r)))
    for p in st.neq:
        l = list(p)
        if any(stale_atoms(x) for x in l):
            out.append('%s != %s' % (short(l[0]), short(l[-1])))
    for f in st.facts:
        if any(stale_atoms(a) for a in f.co):
            out.append(repr(f))
    if st.tags.get('pred:M') is not None and False:
        pass
    return out


class TaintEngine(Engine):
    """Records undecided branch conditions that mention pre-Reset state."""

    def __init__(self, *a, **k):
        Engine.__init__(self, *a, **k)
        self.extra = {'tainted_branches': [], 'tainted_loop_branches': []}
        self._loop_depth = 0

    def run_loop(self, *a, **k):
        self._loop_depth += 1
        try:
            return Engine.run_loop(self, *a, **k)
        finally:
            self._loop_depth -= 1

    def apply_havoc(self, h, lid, mods, smashed, induct, entry):
        # a pre-Reset value the loop updates in place (a counter it decrements, a flag it may set) is pre-Reset state at every
        # iteration: the symbol the summary puts in its place keeps standing for it
        Engine.apply_havoc(self, h, lid, mods, smashed, induct, entry)
        from .. import terms as _terms
        from ..terms import term_of_lin, Lin as _Lin
        for (oid, key), (n, ty, _terms_) in mods.items():
            o, eo = h.objs.get(oid), entry.objs.get(oid)
            if o is None or eo is None or o.weak or oid in smashed or ty is None or ty.kind != 'int':
                continue
            cell = o.cells.get(key)
            if not cell or not isinstance(cell[1], tuple) or cell[1][0] != 'sym' or not str(cell[1][1]).startswith('hv:'):
                continue
            try:
                init = entry.canon(mem.load_scalar(entry, eo.copy(), term_of_lin(_Lin(dict(key[0]), key[1])), ty))
            except Exception:
                continue
            if stale_atoms(init):
                _terms.OPAQUE_DEFS[cell[1][1]] = init

    def branch(self, st, v):
        term = st.canon(v.t)       # (before the branch refines st with the outcome)
        t, f = Engine.branch(self, st, v)
        if t is not None and f is not None:
            bad = stale_atoms(term)
            if bad and len(self.extra['tainted_branches']) < 50:
                self.extra['tainted_branches'].append((self.fn, short(term), [short(a) for a in bad[:3]]))
            if bad and self._loop_depth > 0:
                rec = (self.fn, short(term), [short(a) for a in bad[:3]])
                if rec not in self.extra['tainted_loop_branches'] and len(self.extra['tainted_loop_branches']) < 50:
                    self.extra['tainted_loop_branches'].append(rec)
        return t, f


def run(tier):
    rep = Report('C09', tier)
    prog = load_core('systemd')
    rep.rule('R09.1', 'a freshly created interface record is entirely zero (memset of the full sizeof) and keyed by the context', floor=3)
    rep.rule('R09.2', 'topology Reset: every field of the record is afterwards its fresh value or provably dead (STALE)', floor=8)
    rep.rule('R09.3', 'from the post-Reset state no STALE symbol reaches a branch condition or a byte/argument of any port effect', floor=20)
    rep.rule('R09.4', 'closure: every abstract state (mapper known?, set of STALE bytes) reachable after the Reset is explored', floor=4)
    check_state_for_iface(rep, prog, 'R09.1')

    # the session table (the part of "what the responder remembers" that lives outside the interface record): the ports empty it
    # with session_table_clear when a Reset arrives; afterwards it must equal a freshly created table - no slot valid (whatever
    # holes expiry and removal left), count 0, all-complete true
    rep.rule('R09.7', 'the session table after session_table_clear equals a freshly created one (every slot invalid - not only the first `count` -, count 0, all-complete true)', floor=6)
    from .c16 import clear_and_create, Ctx as _TableCtx
    from .c07 import RuleView
    clear_and_create(RuleView(rep, {'R16.clear': 'R09.7', 'R16.create': 'R09.7'}), _TableCtx(prog))
    # the RepeatBand enumerator is reset through the session table: the tick that finds the table empty (after the Reset's
    # session_table_clear) puts it back to Quiescent with both deadlines cleared - at once, so that a Discover arriving before
    # the next tick starts a round exactly as on a freshly started responder
    rep.rule('R09.8', 'a tick that finds the session table empty returns the enumerator to Quiescent with both deadlines cleared, whatever state it was in (obligation R12.d)', floor=3)
    from .c12 import decide as tick_decide
    tick_decide(RuleView(rep, {'R12.d': 'R09.8'}), prog)
    info = recovery(rep, prog, 'R09')
    rep.analysed.update(info)
    return finish(rep, 'proof',
                  'Non-interference: (1) fresh record is all-zero; (2) after a topology Reset each field (list from the record layout) is zero or untouched; '
                  '(3) with the untouched fields as unconstrained STALE symbols, all 65 536 (ToS,opcode) cells are interpreted: no STALE symbol occurs in an undecided branch '
                  'condition, a transmitted byte, a length, a pause or an allocation size, and a re-established mapper overwrites them. Inductive over continuations.',
                  'abstract interpretation + taint (origin) tracking of pre-Reset state through all dispatch cells', exhaustive=True)


def recovery(rep, prog, P):
    """Steps 2 and 3 of the non-interference argument (shared with C18's 'Reset after a fault' clause): the rules are
    named P.2 (Reset cell), P.3 (no dependence on STALE data), P.4 (closure over reachable abstract states)."""
    # ---- step 2: the Reset cell
    fs = FrameSetup(prog, mtu_ok=True)
    # the record invariant the entry state assumes (no cached icon => recorded size 0) is kept by every handler
    from .frame_common import icon_invariant
    res_all, _o, _s = run_regions(fs)
    rep.rule(P + '.5', 'record invariant kept by every cell of the dispatch matrix: no cached icon => recorded icon size 0 (assumed of every entry record)', floor=9)
    icon_invariant(rep, P + '.5', fs, res_all)
    # the whole argument rests on "everything the responder remembers lives in the interface record": any other mutable
    # static storage of the core (a cache in a TLV writer, a function-local static) survives every Reset
    from .c17 import mutable_statics
    from .frame_common import iface_list_name
    import os as _os
    from ..facts import REPO as _REPO
    LIST = iface_list_name(prog)
    rep.rule(P + '.6', 'no state outside the record: the core has no mutable static storage besides the list of interface records (such state would survive a Reset)', floor=1)
    nstat = 0
    for ixx in prog.index.values():
        for n in mutable_statics(ixx):
            nstat += 1
            okst = n.get('name') == LIST and n.get('_fn') is None
            rep.check(okst, P + '.6', 'static|%s|%s' % (_os.path.relpath(n['_file'], _REPO), n.get('name')),
                      'the core keeps mutable static storage `%s`%s outside the interface record: a Reset does not clear it, so what it remembers (from before the Reset, '
                      'or from a fault) keeps influencing later frames' % (n.get('name'), ' (in %s)' % n['_fn'] if n.get('_fn') else ''), node=n, function=n.get('_fn'))
    if not nstat:
        rep.broke('no static storage found at all (the list of interface records was expected)')
    res = {'topo.rest': res_all['topo.rest']}
    srec = fs.srec
    from .frame_common import record_field
    structural = {record_field(srec, 'iface_ctx')[0], record_field(srec, 'next')[0]}
    post = None
    nreset = 0
    for st, ret in res['topo.rest']:
        # every final state on which the function code MAY be Reset: a path that leaves before the opcode is ever looked at
        # (a hold-off, a rate limit) ends in a state whose function code is unconstrained - the Reset in it was not honoured
        if not st.dom(OPC).contains(OP['reset']):
            continue
        if any(e[0] == 'malloc-failed' for e in st.trace):
            continue
        nreset += 1
        so = st.objs['st']
        cells = {}
        for name, off, qt, _ in srec.fields:
            if name in structural:
                continue
            ty = fs.ix.parse_type(qt)
            n = fs.ix.sizeof(ty)
            bs = [st.canon(b) for b in mem.load_bytes(st, so, C(off), n)]
            bs = [ZERO if (b != ZERO and st.dom(b).lo == 0 and st.dom(b).hi == 0) else b for b in bs]     # known to be 0 on this path
            if ty.kind == 'ptr':
                v = st.canon(mem.load_scalar(st, so, C(off), ty))
                if v == ZERO:
                    cells[off] = (n, ZERO, 'fresh')
                    rep.ok(P + '.2', sample={'field': name, 'after_reset': 'NULL'})
                else:
                    rep.fail(P + '.2', 'reset|%s' % name, 'after a topology Reset the pointer field %s still holds %s (fresh value is NULL)' % (name, short(v)),
                             function='parseFrame', file='lltdResponder/lltdBlock.c')
                continue
            if all(b == ZERO for b in bs):
                cells[off] = (n, ZERO, 'fresh')
                rep.ok(P + '.2', sample={'field': name, 'after_reset': 0})
            elif all(b == ('in', 'st', off + i) for i, b in enumerate(bs)):
                cells[off] = (n, None, 'stale')
                rep.ok(P + '.2', sample={'field': name, 'after_reset': 'STALE (must be dead: step 3)'})
            else:
                # neither zero nor untouched (a free-running statistics counter bumped by the Reset itself): whatever it holds
                # derives from pre-Reset state, so it is STALE like an untouched field - step 3 shows that nothing reads it
                cells[off] = (n, None, 'stale')
                rep.ok(P + '.2', sample={'field': name, 'after_reset': 'derived from pre-Reset state (must be dead: step 3)'})
        if post is None:
            post = cells
        else:
            # a field is fresh after Reset only when it is fresh on every Reset path
            for off, c in cells.items():
                if c[2] == 'stale' or off not in post:
                    post[off] = c
        # resources released
        live = live_heap(fs, st)
        rep.check(not live, P + '.2', 'reset|live-heap', 'objects still allocated after a topology Reset: %s' % live,
                  function='parseFrame', file='lltdResponder/lltdBlock.c')
    if nreset == 0 or post is None:
        raise AnalysisBroken('no (ToS 0, Reset) path found')

    # ---- step 3: continuation from the post-Reset state, closed under the abstract states it reaches
    # abstract state = (mapper known?, set of record bytes still holding pre-Reset data)
    field_of = {}
    for name, off, qt, _ in srec.fields:
        for i in range(fs.ix.sizeof(fs.ix.parse_type(qt))):
            field_of[off + i] = name
    fresh_init = {}
    stale0 = set()
    for off, (n, v, kind) in post.items():
        if kind == 'fresh':
            fresh_init[off] = (n, ZERO)
        else:
            stale0.update(range(off, off + n))
    work = [('reset', frozenset(stale0))]
    seen = set(work)
    nstates = 0
    explored = []
    obs2 = []
    while work:
        kcls, stale = work.pop()
        init = dict(fresh_init) if kcls == 'reset' else {}
        for b in stale:
            init[b] = (1, ('in', 'stale', b))
        fs2 = FrameSetup(prog, mtu_ok=True, init_cells=init)

        def extra(I, st, kcls=kcls):
            if kcls == 'known':
                st.refine(KNOWN, Dom(1, 255))
            elif kcls == 'free':
                st.refine(KNOWN, Dom(0, 0))
        res2, o2, stats2 = run_regions(fs2, engine_cls=TaintEngine, extra=extra if kcls in ('known', 'free') else None)
        obs2 += o2
        label = '%s/%s' % (kcls, ','.join(sorted(set(field_of[b] for b in stale))) or '-')
        explored.append(label)
        for region, outs in res2.items():
            # a test of pre-Reset state inside a loop decides how often the body runs (how many frames go out, what is kept): the
            # loop summary joins the constraint away, so it is caught where the branch is taken
            for fn_, term_, atoms_ in ((stats2.get(region) or {}).get('extra') or {}).get('tainted_loop_branches', ()):
                rep.fail(P + '.3', '%s|loop-control|%s' % (region, fn_),
                         'after a Reset a loop of %s (cell %s) branches on pre-Reset state %s (%s, abstract state %s): how the frame is handled depends on what happened before the Reset'
                         % (fn_, region, atoms_, term_[:80], label), function=fn_, file='lltdResponder/lltdBlock.c')
            for st, ret in outs:
                nstates += 1
                for e, ctx in effects(st, 'sleep'):
                    bad = stale_atoms(e[1])
                    rep.check(not bad, P + '.3', '%s|sleep' % region, 'pause duration depends on pre-Reset state %s' % [short(a) for a in bad[:3]],
                              function='parseFrame', file='lltdResponder/lltdBlock.c')
                for e, ctx in effects(st, 'malloc'):
                    bad = stale_atoms(e[2])
                    rep.check(not bad, P + '.3', '%s|malloc' % region, 'allocation size depends on pre-Reset state', function='parseFrame', file='lltdResponder/lltdBlock.c')
                for sn, ctx in sends(st):
                    S = Snap(st, sn)
                    bad = stale_atoms(S.length)
                    for k, w, t in S.d['cells']:
                        bad += stale_atoms(st.canon(t))
                    if kcls == 'reset':
                        for reg in S.d['regions']:
                            src = reg[2]
                            if isinstance(src, tuple) and src and src[0] == 'memcpy' and src[1] in ('heap:cached.icon', 'SEEN'):
                                bad.append(('in', 'stale', src[1]))
                    # recycled heap memory is pre-Reset state too (freed observations, the freed icon): a transmitted byte that
                    # no store and no zero-fill determines carries whatever the allocator's previous tenant left there
                    okinit, why = S.initialised_upto(S.length)
                    rep.check(okinit, P + '.3', '%s|send-init' % region,
                              'a frame transmitted after the Reset contains undetermined bytes (%s): recycled heap memory from before the Reset can leak into it' % why,
                              function=S.d['fn'], file='lltdResponder/lltdBlock.c')
                    rep.check(not bad, P + '.3', '%s|send' % region,
                              'a frame transmitted after the Reset contains data from before it: %s (abstract state %s)' % (sorted(set(short(a) for a in bad))[:4], label),
                              function=S.d['fn'], file='lltdResponder/lltdBlock.c',
                              sample={'region': region, 'sent_by': S.d['fn'], 'abstract_state': label} if len(rep.samples) < 30 else None)
                # control dependence: a final state that still carries a constraint on STALE data differs
                # (in memory or effects) from the sibling with the complementary constraint - states that
                # re-join identically have had such constraints joined away by the engine
                dep = constrained_stale(st)
                rep.check(not dep, P + '.3', '%s|control' % region,
                          'after a Reset the outcome of handling a frame (cell %s x %s) still depends on a test of pre-Reset state: %s (abstract state %s)'
                          % (st.dom(TOS), st.dom(OPC), dep[:3], label), function='parseFrame', file='lltdResponder/lltdBlock.c')
                # successor abstract state
                so = st.objs['st']
                kp = st.dom(mem.load_scalar(st, so, C(fs2.soff('mapper_known')), fs2.ix.parse_type('unsigned char')))
                left = set()
                for b in range(srec.size):
                    if field_of.get(b) in structural or b not in field_of:
                        continue
                    if stale_atoms(st.canon(mem.load_byte(st, so, (), b))):
                        left.add(b)
                for kc in (['known'] if kp.lo >= 1 else (['free'] if kp.hi == 0 else ['known', 'free'])):
                    if kc == 'free' and kcls == 'reset':
                        # still exactly the post-Reset record?  (a frame may have left the stale bytes alone and yet recorded
                        # something - an observation, a sequence number: then the rest of the record is "anything" again)
                        same_rest = all(st.canon(mem.load_byte(st, so, (), b_)) == ZERO
                                        for off_, (n_, v_) in fresh_init.items() for b_ in range(off_, off_ + n_))
                        kc = 'reset' if (left == stale and same_rest) else 'free'
                    nxt = (kc, frozenset(left))
                    if left and nxt not in seen and len(seen) < 40:
                        seen.add(nxt)
                        work.append(nxt)
                rep.ok(P + '.4')
            rep.ok(P + '.3')
    if len(seen) >= 40:
        rep.broke('abstract state space of the post-Reset closure did not converge')
    stale_fields = sorted(set(field_of[b] for b in stale0))
    fail_obligations(rep, obs2, P + '.ub', kinds=('uninit-read',))
    return {'fields': [f[0] for f in srec.fields], 'stale_fields': stale_fields, 'abstract_states_explored': explored,
            'post_reset_final_states': nstates}
