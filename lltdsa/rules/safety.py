"""All receive / tick entry points interpreted for their safety obligations
(C01, C18, C19): bounds, nullness, liveness, UB operators, leaks."""
import os
from concurrent.futures import ProcessPoolExecutor
import multiprocessing as mp

from .. import facts
from ..facts import AnalysisBroken
from ..engine import Engine, run_entry, mk_obj, new_state
from ..absint import Val
from ..port import PortModel
from ..facts import WORD as W
from ..terms import C, ZERO, INF, short, is_const, Dom
from .. import mem
from .frame_common import FrameSetup, run_regions, REGIONS, live_heap, _slim_ob, effects, sends, request_alloc, BLOCK_UNIT
from .automata_common import load_core, Automaton, AUTOMATA_UNIT

ESP32_UNIT = 'os/esp32/daemon/lltd_esp32.c'


def obs_of(I):
    return [_slim_ob(ob) for ob in I.obs.values()]


def merge_obs(dst, obs):
    for o in obs:
        k = (o['kind'], o['fn'], o['file'], o['line'], o['col'], o['sym'])
        cur = dst.get(k)
        if cur is None:
            dst[k] = dict(o)
        else:
            cur['count'] += o['count']
            if not o['ok']:
                cur['ok'] = False
                cur['msg'] = cur['msg'] or o['msg']


def frame_entry(prog, mtu_ok):
    """parseFrame, all cells: obligations + heap state of every final state."""
    fs = FrameSetup(prog, mtu_ok=mtu_ok)
    res, obs, stats = run_regions(fs)
    heap = []
    for region, outs in res.items():
        for st, ret in outs:
            so = st.objs['st']
            retained = set()
            for fld in ('see_list', 'small_icon'):
                v = st.canon(mem.load_scalar(st, so, C(fs.soff(fld)), fs.ix.parse_type('void *')))
                for x in (v[2] if v[0] == 'pset' else (v,)):
                    if x[0] == 'ptr':
                        retained.add(x[1])
            live = live_heap(fs, st)
            leaked = [oid for oid in live if oid not in retained]
            sizes = [(e[1], st.dom(e[2])) for e, _ in effects(st, 'malloc')]
            heap.append({'region': region, 'leaked': leaked, 'retained': sorted(retained & set(live)),
                         'faults': sum(1 for e in st.trace if e[0] == 'malloc-failed'), 'tos': repr(st.dom(('in', 'frame', 15))),
                         'op': repr(st.dom(('in', 'frame', 17))), 'malloc_sizes': [(a, repr(b)) for a, b in sizes],
                         'count_entry': repr(st.dom(('sym', 'st.see_list_count@entry', 0, (1 << 32) - 1))),
                         'new_node_linked': any(request_alloc(r) for r in retained),
                         'sent_objs': sorted(set(str(sn.d['obj']) for sn, _c in sends(st))),
                         'new_icon_kept': 'heap:port.icon_image' in retained,
                         'entry_icon_live': 'heap:cached.icon' in live,
                         'freed_weak': sum(1 for e, _ in effects(st, 'free') if e[1] == 'SEEN'),
                         'link_stores': link_stores(fs, st)})
    nstates = sum(len(v) for v in res.values())
    return {'obs': obs, 'heap': heap, 'states': nstates, 'stats': {r: {'steps': s['steps'], 'loops': {k: {'induction': {str(a): b for a, b in v['induction'].items()}} for k, v in s['loops'].items()}} for r, s in stats.items()}}


def link_overlap(fs, off, n):
    """Does a store of n bytes at offset off (None = unknown) of an existing list node touch its link field?"""
    from ..facts import WORD
    lo = fs.prec.field('nextProbe')[1]
    return off is None or (off < lo + WORD and lo < off + n)


def link_stores(fs, st):
    """Stores into the link field of an observation that is already in the list and stays there: (offset, size) of every
    weak store into the summary node object SEEN that touches `nextProbe` and is not followed - in the same straight-line
    piece of the trace (same loop iteration) - by the release of a list node (scrubbing a node right before it is freed
    cuts nothing off)."""
    out = []

    def walk(tr):
        tr = list(tr)
        for i, e in enumerate(tr):
            if e[0] == 'weak-store' and e[1] == 'SEEN' and link_overlap(fs, e[2], e[3]):
                scrub = len(e) > 4 and e[4] in ('zero', 'const')
                if not (scrub and any(x[0] == 'free' and x[1] == 'SEEN' for x in tr[i + 1:])):
                    out.append((e[2], e[3]))
            elif e[0] == 'loop':
                for it in e[2]:
                    walk(it)
            elif e[0] == 'last-iteration':
                walk(e[1])
    walk(st.trace)
    return out


def ctor_entry(prog):
    """Constructors with failing allocations."""
    out = {'obs': {}, 'ctors': []}
    ix = prog.unit(AUTOMATA_UNIT)
    for name in ('init_automata_mapping', 'init_automata_session', 'init_automata_enumeration', 'session_table_create'):
        if name not in ix.functions:
            raise AnalysisBroken('anchor function %s vanished' % name)
        I, outs = run_entry(prog, AUTOMATA_UNIT, name, lambda I, st: [], port=PortModel(alloc_may_fail=True), name=name)
        merge_obs(out['obs'], obs_of(I))
        for st, v in outs:
            failed = [e for e in st.trace if e[0] == 'malloc-failed']
            live = [oid for oid, o in st.objs.items() if o.heap and o.live]
            t = st.canon(v.t)
            # objects reachable from the returned automaton (its `extra` block) are not leaks
            reach = set()
            if t[0] == 'ptr':
                reach.add(t[1])
                o = st.objs.get(t[1])
                if o is not None:
                    for k, (w, ct) in o.cells.items():
                        ct = st.canon(ct)
                        if ct[0] == 'ptr':
                            reach.add(ct[1])
            out['ctors'].append({'ctor': name, 'failed_allocs': len(failed), 'returns_null': t == ZERO,
                                 'leaked': [x for x in live if x not in reach], 'returned': short(t)})
    out['obs'] = list(out['obs'].values())
    return out


def sym_arg(I, st, ix, p, nullable=True):
    """Abstract argument for parameter node p."""
    ty = ix.parse_type(p['type']['qualType'])
    name = p.get('name') or 'arg'
    if ty.kind == 'int':
        lo, hi = ty.minmax()
        return Val(ty, ('sym', 'arg.' + name, lo, hi))
    if ty.kind == 'ptr':
        to = ty.to
        if to.kind == 'func' or (to.kind == 'int' and to.size == 1 and name in ('debug',)):
            st.new_obj('ext:' + name, 'ext', 1, default='unknown')
            return Val(ty, ('ptr', 'ext:' + name, ZERO))
        if to.kind == 'rec' and to.rec.size:
            size = to.rec.size
        elif to.kind == 'int':
            size = 6 if 'mac' in name else to.size
        elif to.kind == 'void':
            size = 1
        else:
            size = ix.sizeof(to) if to.kind != 'void' else 1
        oid = 'arg:' + name
        o = mk_obj(st, oid, size, kind='heap', default='sym', heap=True)
        if nullable:
            return Val(ty, ('pset', ('sym', 'arg.' + name, 0, 0), (ZERO, ('ptr', oid, ZERO))))
        return Val(ty, ('ptr', oid, ZERO))
    raise AnalysisBroken('cannot build abstract argument of type %r' % (ty,))


def api_entry(prog):
    """Session table API, RepeatBand and mapping helpers with arbitrary (also NULL) arguments."""
    ix = prog.unit(AUTOMATA_UNIT)
    obs = {}
    fns = ['session_table_destroy', 'session_table_find', 'session_table_add', 'session_table_remove',
           'session_table_update_complete_status', 'session_table_is_empty', 'session_table_all_complete', 'session_table_clear',
           'band_init_stats', 'band_update_stats', 'band_choose_hello_time', 'band_do_hello', 'band_on_hello_received',
           'mapping_reset_charge', 'mapping_on_charge', 'mapping_check_charge_timeout', 'mapping_check_inactive_timeout',
           'mapping_reset_inactive_timeout']
    done = []
    for name in fns:
        fn = ix.functions.get(name)
        if fn is None:
            raise AnalysisBroken('anchor function %s vanished' % name)

        def setup(I, st, fn=fn):
            args = []
            for p in facts.fn_params(fn):
                v = sym_arg(I, st, ix, p)
                args.append(v)
            return args
        port = PortModel(alloc_may_fail=True)
        E = Engine(prog, port=port)
        # (the 16-slot scans of the table API are unrolled rather than summarised where that stays small: a pointer latched in
        #  one iteration and stored through after the loop then keeps its concrete slot)
        E.max_loop_states = 400
        # destroying a table frees a caller-owned heap block
        I, outs = run_entry(prog, AUTOMATA_UNIT, name, setup, engine=E, name=name)
        merge_obs(obs, obs_of(I))
        done.append({'fn': name, 'paths': len(outs)})
    return {'obs': list(obs.values()), 'functions': done}


def automata_entry(prog):
    """switch_state_* from every state, automata_tick for every (mapping, enumeration) state pair."""
    obs = {}
    ix = prog.unit(AUTOMATA_UNIT)
    autos = {}
    info = []
    for ctor, sw in (('init_automata_mapping', 'switch_state_mapping'), ('init_automata_session', 'switch_state_session'),
                     ('init_automata_enumeration', 'switch_state_enumeration')):
        A = Automaton(prog, ctor, sw)
        autos[ctor] = A
        merge_obs(obs, obs_of(A.ctor_engine))
        lacks = A.may_lack_extra()
        for s in range(A.states_no):
            I, res = A.step_relation(s)
            merge_obs(obs, obs_of(I))
            if lacks:
                # the constructor can return the automaton without its extra block (second allocation failed): every
                # step must cope with that, from every state
                I, res = A.step_relation(s, extra_null=True)
                merge_obs(obs, obs_of(I))
        # table invariants used for every index
        bad = [r for r in A.rows if not (r[0] < A.states_no and r[1] < A.states_no)]
        info.append({'automaton': ctor, 'states': A.states_no, 'rows': len(A.rows), 'rows_out_of_range': bad, 'initial': A.initial,
                     'max_states': (A.toff and None)})
    return {'obs': list(obs.values()), 'automata': info}


def tick_entry(prog, ms_list=None, es_list=None):
    """automata_tick for (mapping state, enumeration state) pairs, all pointer arguments possibly NULL."""
    obs = {}
    ix = prog.unit(AUTOMATA_UNIT)
    M = Automaton(prog, 'init_automata_mapping', 'switch_state_mapping')
    Eu = Automaton(prog, 'init_automata_enumeration', 'switch_state_enumeration')
    trec = ix.parse_type('session_table').rec
    prec_ = ix.parse_type('lltd_automata_tick_port').rec
    nt = 0
    for ms in (ms_list if ms_list is not None else range(M.states_no)):
        for es in (es_list if es_list is not None else range(Eu.states_no)):
            st = M.state0.fork()
            st.trace, st.tags = (), {}
            # bring in the enumeration automaton object and its band block
            for oid, o in Eu.state0.objs.items():
                if oid not in st.objs:
                    st.objs[oid] = o.copy()
            a = st.objs[M.oid]
            a.cells[((), M.field_off('current_state'))] = (1, C(ms))
            lt = ('sym', 'last_ts@entry', 0, 1 << 62)
            a.cells[((), M.field_off('last_ts'))] = (8, lt)
            st.tags['clkfloor.s'] = (lt,)
            e = st.objs[Eu.oid]
            e.cells[((), Eu.field_off('current_state'))] = (1, C(es))
            # mapping->extra may be missing after a failed allocation: both cases
            mext = st.canon(mem.load_scalar(st, a, C(M.field_off('extra')), ix.parse_type('void *')))
            if mext[0] == 'ptr' and mext[1] in st.objs:
                st.objs[mext[1]].cells.clear()
                st.objs[mext[1]].default = 'sym'
            bext = st.canon(mem.load_scalar(st, e, C(Eu.field_off('extra')), ix.parse_type('void *')))
            if bext[0] == 'ptr' and bext[1] in st.objs:
                st.objs[bext[1]].cells.clear()
                st.objs[bext[1]].default = 'sym'
            mk_obj(st, 'in:sessions', trec.size, kind='heap', default='sym')
            po = mk_obj(st, 'in:tickport', prec_.size, kind='heap', default='sym')
            mk_obj(st, 'in:last_tx', 8, kind='heap', default='sym')
            mk_obj(st, 'ext:netif', 1, kind='ext', default='unknown')
            po.cells[((), prec_.field('network_interface')[1])] = (W, ('pset', ('sym', 'tp.ni', 0, 0), (ZERO, ('ptr', 'ext:netif', ZERO))))
            po.cells[((), prec_.field('last_hello_tx_ms')[1])] = (W, ('pset', ('sym', 'tp.ltx', 0, 0), (ZERO, ('ptr', 'in:last_tx', ZERO))))
            po.cells[((), prec_.field('send_hello')[1])] = (W, ('pset', ('sym', 'tp.sh', 0, 0), (ZERO, ('fn', 'send_hello'))))

            def setup(I, st2):
                ap = ix.parse_type('automata *')
                return [Val(ap, ('pset', ('sym', 'a.m', 0, 0), (ZERO, M.ret.t))), Val(ap, ('pset', ('sym', 'a.e', 0, 0), (ZERO, Eu.ret.t))),
                        Val(ix.parse_type('session_table *'), ('pset', ('sym', 'a.s', 0, 0), (ZERO, ('ptr', 'in:sessions', ZERO)))),
                        Val(ix.parse_type('const lltd_automata_tick_port *'), ('pset', ('sym', 'a.p', 0, 0), (ZERO, ('ptr', 'in:tickport', ZERO))))]
            I, outs = run_entry(prog, AUTOMATA_UNIT, 'automata_tick', setup, port=PortModel(), state=st, name='automata_tick[%d,%d]' % (ms, es))
            merge_obs(obs, obs_of(I))
            nt += len(outs)
    return {'obs': list(obs.values()), 'tick_paths': nt}


def classifier_entry(prog):
    """derive_session_event (non-testing build): frame in an MTU-sized buffer, arbitrary table, own MAC."""
    ix = prog.unit(AUTOMATA_UNIT)
    if 'derive_session_event' not in ix.functions:
        raise AnalysisBroken('anchor function derive_session_event vanished')
    trec = ix.parse_type('session_table').rec

    def setup(I, st):
        mk_obj(st, 'frame', PortModel.MTU, kind='input', default='sym')
        mk_obj(st, 'in:sessions', trec.size, kind='heap', default='sym')
        mk_obj(st, 'in:our_mac', 6, kind='heap', default='sym')
        cv = ix.parse_type('const void *')
        return [Val(cv, ('pset', ('sym', 'a.f', 0, 0), (ZERO, ('ptr', 'frame', ZERO)))),
                Val(ix.parse_type('session_table *'), ('pset', ('sym', 'a.t', 0, 0), (ZERO, ('ptr', 'in:sessions', ZERO)))),
                Val(ix.parse_type('const uint8_t *'), ('pset', ('sym', 'a.m', 0, 0), (ZERO, ('ptr', 'in:our_mac', ZERO))))]
    I, outs = run_entry(prog, AUTOMATA_UNIT, 'derive_session_event', setup, port=PortModel(), name='derive_session_event')
    return {'obs': obs_of(I), 'paths': len(outs)}


def esp32_entry():
    units = [u for u in facts.compile_db() if u.path == ESP32_UNIT]
    if not units:
        raise AnalysisBroken('esp32 unit missing')
    facts.load_units(units)
    if units[0].ast is None:
        raise AnalysisBroken('esp32 unit does not parse: %s' % units[0].error)
    # together with the core, so that whatever core function the entry point hands the frame to (today none besides the
    # automata steps, which are summarised) is interpreted on a buffer of exactly the told length
    core = [u for u in facts.compile_db() if u.config == 'systemd' and u.path in facts.CORE_UNITS]
    facts.load_units(core)
    prog = facts.Program(units + [u for u in core if u.ast is not None])
    ix = prog.unit(ESP32_UNIT)
    if 'lltd_esp32_handle_frame' not in ix.functions:
        raise AnalysisBroken('anchor lltd_esp32_handle_frame vanished')
    crec = ix.parse_type('lltd_esp32_ctx_t').rec
    LEN = ('sym', 'length', 0, 9216)

    def nop(I, st, args, node, rty):
        st.effect(('switch', st.canon(args[1].t)))
        return [(st, Val(rty, args[0].t))]

    def setup(I, st):
        mk_obj(st, 'frame', LEN, kind='input', default='sym')
        c = mk_obj(st, 'in:ctx', crec.size, kind='heap', default='sym')
        for f in ('mapping', 'session', 'enumeration'):
            mk_obj(st, 'ext:' + f, 1, kind='ext', default='unknown')
            c.cells[((), crec.field(f)[1])] = (W, ('ptr', 'ext:' + f, ZERO))
        return [Val(ix.parse_type('lltd_esp32_ctx_t *'), ('pset', ('sym', 'a.c', 0, 0), (ZERO, ('ptr', 'in:ctx', ZERO)))),
                Val(ix.parse_type('const void *'), ('pset', ('sym', 'a.f', 0, 0), (ZERO, ('ptr', 'frame', ZERO)))),
                Val(ix.parse_type('unsigned long'), LEN)]
    sums = {n: nop for n in ('switch_state_mapping', 'switch_state_session', 'switch_state_enumeration')}
    I, outs = run_entry(prog, ESP32_UNIT, 'lltd_esp32_handle_frame', setup, port=PortModel(), summaries=sums, name='lltd_esp32_handle_frame')
    return {'obs': obs_of(I), 'paths': len(outs)}


def _job(args):
    kind, config = args
    if kind == 'esp32':
        return kind, esp32_entry()
    prog = load_core(config)
    if kind == 'frame.mtu':
        return kind, frame_entry(prog, True)
    if kind == 'frame.fallback':
        return kind, frame_entry(prog, False)
    if kind == 'ctors':
        return kind, ctor_entry(prog)
    if kind == 'api':
        return kind, api_entry(prog)
    if kind == 'automata':
        return kind, automata_entry(prog)
    if kind == 'classifier':
        return kind, classifier_entry(prog)
    if kind.startswith('tick:'):
        _, ms, es = kind.split(':')
        return kind, tick_entry(prog, [int(ms)], [int(es)])
    raise AnalysisBroken('unknown job ' + kind)


def run_all(kinds=None, config='systemd'):
    """-> {kind: result}; obligations merged under 'obs'."""
    kinds = kinds or (['frame.mtu', 'frame.fallback', 'ctors', 'api', 'automata', 'classifier', 'esp32'] +
                      ['tick:%d:%d' % (m, e) for m in range(3) for e in range(3)])
    out = {}
    # the frame jobs fork their own pools; run the others in a small pool first
    light = [k for k in kinds if not k.startswith('frame')]
    if light:
        ctx = mp.get_context('fork')
        with ctx.Pool(min(len(light), 14)) as pool:
            for kind, res in pool.map(_job_safe, [(k, config) for k in light], chunksize=1):
                out[kind] = res
    for k in kinds:
        if k.startswith('frame'):
            out[k] = _job_safe((k, config))[1]
    for k, v in out.items():
        if isinstance(v, dict) and v.get('error'):
            raise AnalysisBroken('%s: %s' % (k, v['error']))
    return out


def _job_safe(args):
    import sys
    sys.setrecursionlimit(20000)
    try:
        return _job(args)
    except AnalysisBroken as e:
        return args[0], {'error': str(e)}
    except Exception as e:     # engine limitation -> analysis broken, never a verdict
        import traceback
        return args[0], {'error': '%s: %s' % (type(e).__name__, traceback.format_exc().splitlines()[-3:])}
