"""C10 — probes emitted by one responder are observed by a peer responder.

Sibling agreement between the emitting half (Emit cell, sendProbeMsg) and the
observing half (Probe/Train cell, parseProbe): the header field the observer
filters on must, in the emitter's frames, carry the station the mapper named
as destination; the identity the observer records must be what the emitter
puts there; the emitter's (ToS, opcode) must reach the observer's handler."""
from ..common import Report, finish
from ..facts import AnalysisBroken
from ..terms import C, ZERO, short, is_const, INF, atoms_of
from .dispatch import analyse, OP, Summary
from .c03 import own_mac_byte
from .c06 import desc_byte
from .frame_common import FrameSetup, run_regions, Snap, effects, request_alloc
from .automata_common import load_core


def run(tier):
    rep = Report('C10', tier)
    prog = load_core('systemd')
    fnf = 'lltdResponder/lltdBlock.c'
    rep.rule('R10.1', 'observer: a Probe/Train is recorded iff six header bytes equal the own address; those offsets are the filter field', floor=1)
    rep.rule('R10.2', 'emitter: in every Probe/Train the filter field carries the descriptor\'s destination address', floor=6)
    rep.rule('R10.4', 'observer: a probe is discarded as already seen only if an entry with the same Ethernet source and the same real source exists', floor=1)
    rep.rule('R10.5', 'observer: every recorded observation is carried by the next QueryResp(s): field mapping node -> wire, every announced descriptor serialised, '
             'truncation keeps the unsent remainder, only reported observations are released', floor=40)
    rep.rule('R10.3', 'emitter: the field the observer records as source identity carries the emitter\'s own address; ToS/opcode reach the observer', floor=7)
    rep.rule('R10.6', 'what B recorded is still there when the Query comes: the interface-record lookup hands out the record keyed by the interface, creates one only on a miss and '
             'never stores into (or re-links) an existing record', floor=3)
    from .state_record import check_state_for_iface
    check_state_for_iface(rep, prog, 'R10.6')
    # ---- observer
    fs = FrameSetup(prog, mtu_ok=True)
    fs.keep_iter_states = True
    res, obs, stats = run_regions(fs, regions=['topo.rest'], jobs=1)
    from .c07 import dedupe_key_check
    dedupe_key_check(rep, stats['topo.rest']['loops'], {f[0]: f[1] for f in fs.prec.fields}, 'R10.4', fnf)
    filt = None
    recorded = 0
    identity = None
    for st, ret in res['topo.rest']:
        ops = st.dom(('in', 'frame', 17)).values()
        if not set(ops) <= {OP['probe'], OP['train']}:
            continue
        allocs = [e for e, _ in effects(st, 'malloc') if request_alloc(e[1])]
        if not allocs:
            continue
        recorded += 1
        # which frame bytes are known equal to the own address on this path?
        offs = {}
        for off in range(0, 32):
            b = st.canon(('in', 'frame', off))
            for i in range(6):
                if own_mac_byte(st, b, i):
                    offs[i] = off
        if len(offs) == 6:
            f = tuple(offs[i] for i in range(6))
            if filt is None:
                filt = f
            elif filt != f:
                rep.fail('R10.1', 'observer|inconsistent-filter', 'observer paths filter on different header fields %s / %s' % (filt, f), function='parseProbe', file=fnf)
        else:
            rep.fail('R10.1', 'observer|unfiltered', 'a Probe/Train is recorded on a path that did not compare six header bytes with the own address (%s)' % offs,
                     function='parseProbe', file=fnf)
        # identity recorded: node field realSourceAddr origin
        node = [oid for oid in st.objs if request_alloc(oid)]
        if node:
            o = st.objs[node[0]]
            prec = fs.prec
            from .. import mem
            rs = [st.canon(b) for b in mem.load_bytes(st, o, C(prec.field('realSourceAddr')[1]), 6)]
            if all(b[0] == 'in' and b[1] == 'frame' for b in rs):
                identity = tuple(b[2] for b in rs)
    if recorded == 0 or filt is None:
        rep.fail('R10.1', 'observer|never-records', 'no path of the Probe/Train cell records an observation', function='parseProbe', file=fnf)
        return finish(rep, 'other', 'emitter/observer agreement', 'sibling agreement via origin analysis')
    rep.ok('R10.1', sample={'observer_filter_offsets': filt, 'observer_identity_offsets': identity})
    # ---- emitter
    fs2 = FrameSetup(prog, mtu_ok=True)
    fs2.keep_iter_states = True
    res2, obs2, stats2 = run_regions(fs2, regions=['topo.emit'], jobs=1)
    loops = stats2['topo.emit']['loops']
    lid = [l for l in loops if any(any(e[0] == 'send' for e in tr) for _k, tr, _s in (loops[l].get('iter_states') or []))]
    if len(lid) != 1:
        raise AnalysisBroken('expected one transmitting loop in the Emit cell, found %s' % lid)
    k = ('sym', 'iter:' + lid[0], 0, INF)
    nframes = 0
    for kind, trace, st in loops[lid[0]]['iter_states'] or []:
        for e in trace:
            if e[0] != 'send':
                continue
            sn = Snap(st, e[1])
            opb = st.canon(sn.byte(17))
            if opb not in (C(OP['probe']), C(OP['train'])):
                continue
            nframes += 1
            for i, off in enumerate(filt):
                got = st.canon(sn.byte(off))
                rep.check(st.same(got, desc_byte(k, 8 + i)), 'R10.2', 'emitter|filter-field',
                          'emitted Probe/Train: header byte %d (the field a peer responder filters on) is %s, not byte %d of the descriptor\'s destination address - '
                          'the peer will not record the probe' % (off, short(got), i), function='sendProbeMsg', file=fnf)
            if identity:
                for i, off in enumerate(identity):
                    rep.check(own_mac_byte(st, sn.byte(off), i), 'R10.3', 'emitter|identity-field',
                              'emitted Probe/Train: header byte %d (recorded by the peer as source identity) is not the emitter\'s own address' % off,
                              function='sendProbeMsg', file=fnf)
            tosb = st.canon(sn.byte(15))
            rep.check(tosb == ZERO, 'R10.3', 'emitter|tos', 'emitted Probe/Train carries ToS %s; the observer handles Probe/Train only for topology discovery (0)' % short(tosb),
                      function='sendProbeMsg', file=fnf)
    if nframes == 0:
        rep.fail('R10.2', 'emitter|no-frames', 'the Emit cell emits no Probe/Train frame', function='parseEmit', file=fnf)
    rep.analysed.update({'observer_filter_offsets': filt, 'observer_identity_offsets': identity, 'emitted_frames_examined': nframes})
    # ---- what B recorded is what B's next QueryResp carries: the record -> report obligations of the observation list,
    # re-decided here because this property's statement ends at the QueryResp, not at the record
    from .c07 import decide, RuleView
    decide(RuleView(rep, {r: 'R10.5' for r in ('R07.a', 'R07.c', 'R07.e', 'R07.f', 'R07.g', 'R07.i', 'R07.j')}), prog)
    return finish(rep, 'other',
                  'Decides the structural clause "emitter and observer agree on the frame format": the observer\'s filter field and recorded identity are extracted from the '
                  'interpreted Probe/Train cell, and every Probe/Train the interpreted Emit cell can transmit must carry the descriptor destination / own address at exactly those '
                  'offsets, with a (ToS, opcode) that reaches the observer. Delivery by the network and the end-to-end history are not decided here.',
                  'sibling agreement by origin analysis of both halves of the implementation', exhaustive=True,
                  assumptions=['the mapper names the observing station as the descriptor destination', 'frames are delivered unmodified'])
