"""Shared set-up for interpreting parseFrame over the whole (ToS, opcode) space."""
import sys

import os
import re
from ..facts import AnalysisBroken
from .. import facts
from ..engine import Engine, run_entry, new_state, mk_obj
from ..absint import Val
from ..port import PortModel
from ..facts import WORD as W
from ..terms import C, ZERO, INF, short, is_const, Dom, mk_cat
from .. import mem

sys.setrecursionlimit(20000)

BLOCK_UNIT = 'lltdResponder/lltdBlock.c'

TOS = ('in', 'frame', 15)
OPC = ('in', 'frame', 17)
KNOWN = ('sym', 'st.mapper_known@entry', 0, 255)
SEEN_COUNT = ('sym', 'st.see_list_count@entry', 0, (1 << 32) - 1)
# any size_t: the entry record is arbitrary (a sentinel such as (size_t)-1 stored by the code under analysis must be representable)
ICON_SIZE = ('sym', 'st.small_icon_size@entry', 0, (1 << (8 * W)) - 1)


class FrameSetup(object):
    """Builds the abstract entry state of parseFrame and the summary of lltd_state_for_iface."""

    def __init__(self, prog, mtu_ok=True, alloc_may_fail=True, fresh_state=False, init_cells=None):
        self.prog = prog
        self.ix = prog.unit(BLOCK_UNIT)
        self.lookup = state_lookup_name(prog)
        if 'parseFrame' not in self.ix.functions:
            raise AnalysisBroken('anchor function parseFrame vanished from %s' % BLOCK_UNIT)
        self.mtu_ok = mtu_ok
        self.port = PortModel(mtu_ok=mtu_ok, alloc_may_fail=alloc_may_fail)
        self.alloc_may_fail = alloc_may_fail
        t = self.ix.parse_type('lltd_iface_state')
        if t.kind != 'rec' or t.rec.size is None:
            raise AnalysisBroken('record lltd_iface_state has no layout')
        self.srec = t.rec
        self.prec = self.ix.parse_type('probe_t').rec
        self.fresh_state = fresh_state
        self.init_cells = init_cells      # {offset: (width, term)} overriding the symbolic entry record
        self.frame_size = PortModel.MTU if mtu_ok else ('sym', 'rxbuf.size', 1500, 9216)

    def soff(self, name):
        return record_field(self.srec, name)[1]

    def entry_bytes(self, off, n):
        """The bytes of the interface record at offset `off` as they are at entry of parseFrame (for "unchanged" tests)."""
        if getattr(self, '_entry', None) is None:
            st0 = new_state()
            self.build(st0)
            self._entry = st0
        st0 = self._entry
        return tuple(st0.canon(b) for b in mem.load_bytes(st0, st0.objs['st'], C(off), n))

    def build(self, st):
        fr = mk_obj(st, 'frame', self.frame_size, kind='input', default='sym')
        mk_obj(st, 'ext:ctx', 1, kind='ext', default='unknown')
        so = mk_obj(st, 'st', self.srec.size, kind='heap', default='sym', heap=True)
        so.cells[((), self.soff('iface_ctx'))] = (W, ('ptr', 'ext:ctx', ZERO))
        if self.fresh_state:
            so.cells.clear()
            so.default = 'zero'
            so.zeroed_n = so.size
            so.cells[((), self.soff('iface_ctx'))] = (W, ('ptr', 'ext:ctx', ZERO))
            return
        seen = mk_obj(st, 'SEEN', self.prec.size, kind='heap', default='sym', heap=True, weak=True)
        npo = self.prec.field('nextProbe')[1]
        seen.ptr_fields = {npo: (ZERO, ('ptr', 'SEEN', ZERO))}
        icon = mk_obj(st, 'heap:cached.icon', ICON_SIZE, kind='heap', default='unknown', heap=True)
        # the list may continue with another interface's record (different context)
        mk_obj(st, 'ext:ctx2', 1, kind='ext', default='unknown')
        other = mk_obj(st, 'OTHER', self.srec.size, kind='heap', default='sym', heap=True, weak=True)
        other.ptr_fields = {self.soff('iface_ctx'): (('ptr', 'ext:ctx2', ZERO),), self.soff('next'): (ZERO, ('ptr', 'OTHER', ZERO)),
                            self.soff('see_list'): (ZERO,), self.soff('small_icon'): (ZERO,)}
        so.ptr_fields = {self.soff('see_list'): (ZERO, ('ptr', 'SEEN', ZERO)),
                         self.soff('small_icon'): (ZERO, ('ptr', 'heap:cached.icon', ZERO)),
                         self.soff('next'): (ZERO, ('ptr', 'OTHER', ZERO))}
        so.cells[((), self.soff('mapper_known'))] = (1, KNOWN)
        so.cells[((), self.soff('see_list_count'))] = (4, SEEN_COUNT)
        so.cells[((), self.soff('small_icon_size'))] = (W, ICON_SIZE)
        # record invariant: no cached icon => recorded size 0 (assumed at entry; icon_invariant() proves every handler keeps it)
        st.tags['implications'] = ((('pset', ('in', 'st', self.soff('small_icon')), (ZERO, ('ptr', 'heap:cached.icon', ZERO))), ZERO, ICON_SIZE, Dom(0, 0)),)
        if self.init_cells:
            pf = dict(so.ptr_fields)
            for off, (w, t) in self.init_cells.items():
                so.cells[((), off)] = (w, t)
                pf.pop(off, None)
            so.ptr_fields = pf

    def summary_state_for_iface(self, I, st, args, node, rty):
        """Summary of lltd_state_for_iface (verified separately by rule R09.1/R17.2/R18.a):
        returns this context's record, or NULL when the record had to be allocated and the allocation failed."""
        out = []
        if self.alloc_may_fail:
            f = st.fork()
            f.effect(('malloc-failed', 'heap:%s#0' % self.lookup))
            out.append((f, Val(rty, ZERO)))
        out.append((st, Val(rty, ('ptr', 'st', ZERO))))
        return out

    def args(self, I, st):
        self.build(st)
        vp = self.ix.parse_type('void *')
        return [Val(vp, ('ptr', 'frame', ZERO)), Val(vp, ('ptr', 'ext:ctx', ZERO))]

    def run(self, engine_cls=Engine, tracked=(TOS, OPC), extra_summaries=None, pre=None, name='parseFrame'):
        sums = {self.lookup: self.summary_state_for_iface}
        if extra_summaries:
            sums.update(extra_summaries)
        E = engine_cls(self.prog, port=self.port, summaries=sums, entry_name=name)
        E.loop_info = {}
        E.keep_iter_states = getattr(self, 'keep_iter_states', False)
        if getattr(self, 'force_summary', False):
            E.force_summary = True
        E.debug_loops = bool(os.environ.get('LLTD_DEBUG_LOOPS'))
        mo = self.soff('mapper_real')
        rcm = ('sym', 'rc.mac', -(1 << 31), (1 << 31) - 1)
        E.tracked_preds = {'M': [(('in', 'st', mo + i), ('in', 'frame', 24 + i)) for i in range(6)],
                           'B': [(('in', 'frame', 24 + i), ('in', 'frame', 6 + i)) for i in range(6)],
                           # U: the frame's real destination is this station (own address as the port supplies it)
                           'U': [(('in', 'frame', 18 + i), ('sel', rcm, ('in', 'port.mac', i), ZERO)) for i in range(6)]}

        def setup(I, st):
            a = self.args(I, st)
            if pre:
                pre(I, st)
            return a
        I, outs = run_entry(self.prog, BLOCK_UNIT, 'parseFrame', setup, engine=E, tracked=tracked, name=name)
        return I, outs


def sends(st):
    """All send effects of a final state, flattened, as (snapshot, context) with context in
    ('top',) | ('loop', id) | ('last-iteration',)."""
    out = []

    def walk(tr, ctx):
        for e in tr:
            if e[0] == 'send':
                out.append((e[1], ctx))
            elif e[0] == 'loop':
                for it in e[2]:
                    walk(it, ctx + (('loop', e[1]),))
            elif e[0] == 'last-iteration':
                walk(e[1], ctx + (('last',),))
    walk(st.trace, ())
    return out


def effects(st, kind):
    out = []

    def walk(tr, ctx):
        for e in tr:
            if e[0] == kind:
                out.append((e, ctx))
            elif e[0] == 'loop':
                for it in e[2]:
                    walk(it, ctx + (('loop', e[1]),))
            elif e[0] == 'last-iteration':
                walk(e[1], ctx + (('last',),))
    walk(st.trace, ())
    return out


class Snap(object):
    """Read-only view of a transmitted buffer snapshot."""

    def __init__(self, st, snap):
        self.st = st
        self.d = snap.d
        self.cells = {k: (w, t) for k, w, t in self.d['cells']}

    def byte(self, off):
        """Byte term at constant offset, or None if unknown / uninitialised marker ('uninit',)."""
        for back in range(8):
            c = self.cells.get(((), off - back))
            if c is not None and back < c[0]:
                from ..terms import mk_byte
                w, t = c
                if w == 1:
                    return self.st.canon(t)
                from ..mem import mem_byte
                return self.st.canon(mem_byte(t, back, w))
        if self.d['default'] == 'zero':
            return ZERO
        if self.d['default'] in ('sym', 'unknown'):
            return ('in', self.d['obj'], off)
        return ('uninit',)

    def byte_at(self, lin):
        """Byte at a (possibly symbolic) offset given as Lin; None when no cell is keyed exactly there."""
        from ..state import split_off
        from ..terms import mk_byte
        sk, c = split_off(lin)
        if not sk:
            return self.byte(c)
        for back in range(8):
            cell = self.cells.get((sk, c - back))
            if cell is not None and back < cell[0]:
                w, t = cell
                from ..mem import mem_byte
                return self.st.canon(t) if w == 1 else self.st.canon(mem_byte(t, back, w))
        return None

    def initialised_upto(self, length):
        """Is every byte below `length` (term) determined by a store or the zero fill?  -> (ok, why)"""
        st = self.st
        d = self.d
        from ..terms import maybe_uninit
        if any(maybe_uninit(st.canon(t)) for (k, w, t) in d['cells']):
            return False, 'a possibly uninitialised value was stored into the buffer'
        for (k, w, t) in d['cells']:
            if t[0] == 'selw' and t[4] == ('uninit',):
                return False, 'a getter destination inside the buffer was not initialised before the call'
        if d['default'] == 'zero':
            zn = d['zeroed_n']
            if zn is None or zn == d['size'] or st.prove_le(length, zn):
                return True, ''
            return False, 'zero fill covers %s bytes, frame length is %s' % (short(zn), short(length))
        if d['default'] in ('sym', 'unknown'):
            return True, ''
        c = st.dom(length).const()
        if c is None:
            # explicit stores up to a constant offset c0, then a block copy of n bytes at c0 (the payload), length <= c0 + n:
            # every byte below the length is determined although the buffer as a whole was never zero-filled
            regs = [r for r in (d.get('regions') or ()) if isinstance(r, tuple) and len(r) >= 3 and isinstance(r[0], tuple) and not r[0][0]
                    and isinstance(r[2], tuple) and r[2] and r[2][0] == 'memcpy']
            for key, n_, _src in regs:
                c0 = key[1]
                if not isinstance(c0, int) or c0 < 0 or c0 > 4096:
                    continue
                if any(self.byte(i) == ('uninit',) for i in range(c0)):
                    continue
                if st.prove_le(length, ('add', C(c0), n_)):
                    return True, ''
            return False, 'buffer is not zero-filled and the frame length %s is not constant' % short(length)
        for i in range(int(c)):
            if self.byte(i) == ('uninit',):
                return False, 'byte %d of the frame was never written' % i
        return True, ''

    def bytes(self, off, n):
        return [self.byte(off + i) for i in range(n)]

    def u16be(self, off):
        b = self.bytes(off, 2)
        return mk_cat((b[1], b[0]))

    @property
    def length(self):
        return self.d['len']


# --------------------------------------------------------------------------
# regional, parallel interpretation of parseFrame
# --------------------------------------------------------------------------

REGIONS = {
    'topo.discover': (Dom(0, 0), Dom(0, 0)),
    'quick.discover': (Dom(1, 1), Dom(0, 0)),
    'topo.qlt': (Dom(0, 0), Dom(11, 11)),
    'quick.qlt': (Dom(1, 1), Dom(11, 11)),
    'topo.query': (Dom(0, 0), Dom(6, 6)),
    'topo.emit': (Dom(0, 0), Dom(2, 2)),
    'topo.rest': (Dom(0, 0), Dom(1, 255, frozenset((2, 6, 11)))),
    'quick.rest': (Dom(1, 1), Dom(1, 255, frozenset((11,)))),
    'other.tos': (Dom(2, 255), Dom(0, 255)),
}


def _slim_ob(ob):
    from ..facts import REPO
    n = ob.node or {}
    f = n.get('_file')
    if f and f.startswith(REPO + '/'):
        f = f[len(REPO) + 1:]
    return {'kind': ob.kind, 'fn': ob.fn, 'ok': ob.ok, 'msg': ob.msg, 'sym': ob.sym, 'count': ob.count,
            'file': f, 'line': n.get('_line'), 'col': n.get('_col'), 'nid': id(ob.node), 'entry': ob.entry}


_WORK = {}


def _region_worker(args):
    key, region = args
    fs, engine_cls, tracked, extra = _WORK[key]
    td, od = REGIONS[region]

    def pre(I, st):
        if not st.refine(TOS, td) or not st.refine(OPC, od):
            raise AnalysisBroken('region %s infeasible' % region)
        if extra:
            extra(I, st)
    try:
        I, outs = fs.run(engine_cls=engine_cls, tracked=tracked, pre=pre, name='parseFrame[%s]' % region)
    except AnalysisBroken as e:
        return region, None, str(e), None, None
    obs = [_slim_ob(ob) for ob in I.obs.values()]
    info = {k: {kk: vv for kk, vv in v.items() if kk != 'node'} for k, v in (I.loop_info or {}).items()}
    from .. import terms as _terms
    stats = {'steps': I.steps, 'max_states': I.max_states, 'functions': sorted(I.functions_seen), 'loops': info,
             'extra': getattr(I, 'extra', None), 'opaque': dict(_terms.OPAQUE_DEFS)}
    for st, v in outs:
        st.counter = [0]
    for v in info.values():
        for item in (v.get('iter_states') or []):
            item[2].counter = [0]
        if v.get('iter_start') is not None:
            v['iter_start'].counter = [0]
        for s2 in (v.get('exit_snaps') or []):
            s2.counter = [0]
    return region, [(st, v.t) for st, v in outs], None, obs, stats


def run_regions(fs, regions=None, engine_cls=Engine, tracked=(TOS, OPC), extra=None, jobs=None):
    """Interpret parseFrame once per region, in parallel (fork).  Returns
    {region: [(state, return term)]}, obligations [dict], stats {region: dict}."""
    import multiprocessing as mp
    import os
    regions = list(regions or REGIONS)
    key = id(fs)
    _WORK[key] = (fs, engine_cls, tracked, extra)
    jobs = jobs or min(len(regions), os.cpu_count() or 4)
    results = {}
    obs = {}
    stats = {}
    try:
        if jobs > 1 and len(regions) > 1:
            ctx = mp.get_context('fork')
            with ctx.Pool(jobs) as pool:
                res = pool.map(_region_worker, [(key, r) for r in regions], chunksize=1)
        else:
            res = [_region_worker((key, r)) for r in regions]
    finally:
        _WORK.pop(key, None)
    for region, outs, err, ob, st_ in res:
        if err:
            raise AnalysisBroken('region %s: %s' % (region, err))
        results[region] = outs
        stats[region] = st_
        if st_ and st_.get('opaque'):
            from .. import terms as _terms
            for k_, v_ in st_['opaque'].items():
                _terms.OPAQUE_DEFS.setdefault(k_, v_)
        for o in ob:
            k = (o['kind'], o['fn'], o['file'], o['line'], o['col'], o['sym'])
            cur = obs.get(k)
            if cur is None:
                obs[k] = o
            else:
                cur['count'] += o['count']
                if not o['ok']:
                    cur['ok'] = False
                    cur['msg'] = cur['msg'] or o['msg']
    return results, list(obs.values()), stats


def entry_icon_exists(fs, st):
    """Did the cached icon exist at entry on this path?  True / False / None (not examined)."""
    off = fs.soff('small_icon')
    ps = ('pset', ('in', 'st', off), (ZERO, ('ptr', 'heap:cached.icon', ZERO)))
    c = st.canon(ps)
    if c == ZERO:
        return False
    if c[0] == 'ptr':
        return True
    return None


def record_field(srec, name):
    """(name, offset, type, id) of the record field playing role `name` (renamed fields are re-identified by type and position,
    see facts.ROLE_TABLES)."""
    f = srec.field(name)
    if f is None:
        raise AnalysisBroken('field %s.%s vanished and cannot be re-identified by type' % (srec.name, name))
    return f


def iface_list_unit(prog):
    """(unit path, name) of the list head of interface records: the file-scope static of type `lltd_iface_state *`
    (`g_iface_states` in lltdBlock.c today) - found by type, in whichever core unit defines it."""
    c = []
    for path, ix in sorted(prog.index.items()):
        for n in facts.walk(ix.unit.ast):
            if n.get('kind') == 'VarDecl' and n.get('_fn') is None and n.get('storageClass') == 'static' and (n.get('_file') or '').endswith(path):
                qt = ' '.join(n['type']['qualType'].replace('struct ', '').split())
                if qt == 'lltd_iface_state *' and (path, n.get('name')) not in c:
                    c.append((path, n['name']))
    if len(c) != 1:
        raise AnalysisBroken('cannot identify the list head of interface records (file-scope static lltd_iface_state *): candidates %s' % c)
    return c[0]


def iface_list_name(prog):
    return iface_list_unit(prog)[1]


_LOOKUP_CACHE = {}


def state_lookup_name(prog):
    """Name of the function that maps an interface context to its record: by its role, not its spelling - the function
    parseFrame calls directly whose result type is a pointer to the interface record (`lltd_state_for_iface` today)."""
    key = id(prog)
    if key in _LOOKUP_CACHE:
        return _LOOKUP_CACHE[key]
    ix = prog.unit(BLOCK_UNIT)
    pf = ix.functions.get('parseFrame')
    if pf is None:
        raise AnalysisBroken('anchor function parseFrame vanished')
    cands = []
    for n in facts.walk(pf):
        if n.get('kind') == 'CallExpr' and n.get('inner'):
            c = n['inner'][0]
            while c.get('kind') in ('ImplicitCastExpr', 'ParenExpr'):
                c = c['inner'][0]
            if c.get('kind') == 'DeclRefExpr':
                rd = c.get('referencedDecl', {})
                qt = (rd.get('type') or {}).get('qualType', '')
                if re.match(r'\s*(struct\s+)?lltd_iface_state\s*\*\s*\(', qt) and rd.get('name') not in cands \
                        and prog.resolve(ix, rd.get('name'))[1] is not None:
                    cands.append(rd['name'])
    if len(cands) != 1:
        raise AnalysisBroken('cannot identify the interface-record lookup called from parseFrame (candidates %s)' % cands)
    _LOOKUP_CACHE[key] = cands[0]
    return cands[0]


def state_lookup_unit(prog):
    """Unit path in which the record lookup is defined (it may have been moved out of the frame handler's file)."""
    ixx, fn = prog.resolve(prog.unit(BLOCK_UNIT), state_lookup_name(prog))
    return ixx.unit.path


_DIAG_CACHE = {}


def diagnostic_offsets(prog):
    """Byte offsets of interface-record fields that exist for diagnostics only: every read of such a field in the core
    is an argument of a logging call or part of its own update (`f++`, `f += n`, `if (x > f) f = x` is NOT accepted - that
    reads it in a condition).  Writes to them are not behaviour: nothing transmitted or decided can depend on them."""
    key = id(prog)
    if key in _DIAG_CACHE:
        return _DIAG_CACHE[key]
    ix = prog.unit(BLOCK_UNIT)
    srec = ix.parse_type('lltd_iface_state').rec
    names = set(f[0] for f in srec.fields) - set(n for n, _t in facts.ROLE_TABLES['lltd_iface_state'])
    bad = set()

    def visit(n, in_log, self_update):
        if not isinstance(n, dict):
            return
        k = n.get('kind')
        if k == 'CallExpr' and n.get('inner'):
            c = n['inner'][0]
            while c.get('kind') in ('ImplicitCastExpr', 'ParenExpr'):
                c = c['inner'][0]
            nm = c.get('referencedDecl', {}).get('name', '') if c.get('kind') == 'DeclRefExpr' else ''
            for a in n['inner'][1:]:
                visit(a, in_log or nm.startswith('lltd_port_log_'), None)
            return
        if k in ('UnaryOperator',) and n.get('opcode') in ('++', '--') and n.get('inner'):
            t = n['inner'][0]
            while t.get('kind') == 'ParenExpr':
                t = t['inner'][0]
            if t.get('kind') == 'MemberExpr' and t.get('name') in names:
                for c in t.get('inner', []):
                    visit(c, in_log, None)
                return
        if k in ('BinaryOperator', 'CompoundAssignOperator') and n.get('opcode', '').endswith('=') and n.get('opcode') not in ('==', '!=', '<=', '>=') and n.get('inner'):
            lhs = n['inner'][0]
            while lhs.get('kind') == 'ParenExpr':
                lhs = lhs['inner'][0]
            if lhs.get('kind') == 'MemberExpr' and lhs.get('name') in names:
                for c in lhs.get('inner', []):
                    visit(c, in_log, None)
                visit(n['inner'][1], in_log, lhs.get('name'))      # `f = f + 1` may read f itself
                return
        if k == 'MemberExpr' and n.get('name') in names:
            if not in_log and self_update != n.get('name'):
                rp = ix.field_parent.get(n.get('referencedMemberDecl'))
                if rp is None or rp[0] is srec or rp[0].name.replace('struct ', '') == 'lltd_iface_state':
                    bad.add(n.get('name'))
        for c in n.get('inner', []) or []:
            visit(c, in_log, self_update)
    for uix in prog.index.values():
        for fname, fn in uix.functions.items():
            visit(fn, False, None)
    offs = set()
    for f in srec.fields:
        if f[0] in names and f[0] not in bad:
            for b in range(ix.sizeof(ix.parse_type(f[2]))):
                offs.add(f[1] + b)
    _DIAG_CACHE[key] = offs
    return offs


def request_alloc(oid):
    """A heap object allocated while the frame is handled (not one of the harness's entry placeholders), whatever
    function the allocation sits in."""
    oid = str(oid)
    return oid.startswith('heap:') and oid != 'heap:cached.icon' and not oid.startswith('heap:port.') and not oid.startswith(('heap:lltd_state_for_iface', 'heap:record-lookup'))


def icon_invariant(rep, rule, fs, res, fnf='lltdResponder/lltdBlock.c'):
    """Every final state keeps `no cached icon => recorded icon size 0` (the invariant the entry state assumes)."""
    from .. import mem
    n = 0
    for region, outs in res.items():
        for st, ret in outs:
            so = st.objs.get('st')
            if so is None:
                continue
            p = st.canon(mem.load_scalar(st, so, C(fs.soff('small_icon')), fs.ix.parse_type('void *')))
            z = st.canon(mem.load_scalar(st, so, C(fs.soff('small_icon_size')), fs.ix.parse_type('unsigned long')))
            n += 1
            if p[0] == 'ptr':
                # what the record caches must be a block it owns: the Reset (and the next refresh) hands it to the port's free
                o_ = st.objs.get(p[1])
                owned = o_ is not None and o_.heap and o_.live and st.canon(p[2]) == ZERO
                rep.check(owned, rule, 'icon-owned|%s' % region, 'a path of cell %s leaves the icon cache pointing to %s, which is not a live heap block owned by the record '
                          '(static storage, an interior pointer, a released block): clearing the cache frees it' % (region, short(p)), function='parseFrame', file=fnf)
                continue
            if p == ZERO:
                ok = st.dom(z).hi == 0
            else:
                # pointer not decided on this path: the pair must be the untouched entry pair, or the size 0
                ok = st.dom(z).hi == 0 or (z == st.canon(ICON_SIZE) and p[0] == 'pset' and p[1] == ('in', 'st', fs.soff('small_icon')))
            rep.check(ok, rule, 'icon-invariant|%s' % region,
                      'a path of cell %s ends with cached icon %s but recorded icon size %s: "no icon => size 0" is what every handler relies on at entry'
                      % (region, short(p), short(z)), function='parseFrame', file=fnf)
    return n


def live_heap(fs, st, ignore=('st',)):
    """Heap objects live in this final state (entry placeholders that did not exist on this path are skipped)."""
    out = []
    for oid, o in st.objs.items():
        if not (o.heap and o.live) or o.weak or oid in ignore or oid == 'OTHER':
            continue
        if oid == 'heap:cached.icon' and entry_icon_exists(fs, st) is False:
            continue
        out.append(oid)
    return out


def queryresp_announced(fs, st):
    """The descriptor count a QueryResp must announce on this path: capacity when more observations are pending
    than fit, else the recorded count; None if the path compared neither."""
    cap = ('div', ('add', fs.frame_size if fs.mtu_ok else C(1500), C(-34)), C(20))      # (the MTU the code works with: the port's, or the 1500 fallback)
    if st.prove_lt(cap, SEEN_COUNT):
        return cap
    if st.prove_le(SEEN_COUNT, cap):
        return SEEN_COUNT
    return None


def queryresp_length_ok(fs, st, snap):
    """-> (ok, announced, tolerated_short): frame length = 34 + 20 x announced count; a shorter frame is tolerated only
    on a loop exit taken because the list ended early (contradicts count = list length, which is not proved here)."""
    announced = queryresp_announced(fs, st)
    if announced is None:
        return False, None, False
    want = ('add', ('mul', C(20), announced), C(34))
    L = snap.length
    exact = st.same(L, want) or (st.prove_le(L, want) and st.prove_le(want, L))
    short_ok = (not exact) and any(str(k).startswith('exit:') for k in st.tags) and st.prove_le(L, want)
    if not exact and not short_ok:
        # ... or through a `break` taken with a NULL pointer local (the list cursor): the same "list ended" exit written
        # as a statement; which local it is and that nothing was copied in that iteration is decided by C07 (R07.i)
        short_ok = any(str(k).startswith('left-by-break:') and isinstance(v, tuple) for k, v in st.tags.items()) and st.prove_le(L, want)
    if not exact and not short_ok:
        # a path on which the list head was NULL at entry although the recorded count is positive: excluded by the same
        # invariant (count = list length); the loop never ran, so it carries no exit tag
        head = st.canon(('pset', ('in', 'st', fs.soff('see_list')), (ZERO, ('ptr', 'SEEN', ZERO))))
        if head == ZERO and st.dom(SEEN_COUNT).lo >= 1 and st.prove_le(L, want):
            short_ok = True
    return exact or short_ok, announced, short_ok
