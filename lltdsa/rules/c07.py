"""C07 — every observed probe is reported to the mapper exactly once.

Inductive ingredients, each decided on the interpreted Probe/Train and Query
cells: the "for us" filter, the de-duplication key, identity of the field
mapping frame -> node -> wire descriptor, sequence number and destination of
the QueryResp, the truncation rule (more flag, unsent nodes kept) and the
release of the list.  Multiset equality over arbitrary histories is concluded
from these by induction, not enumerated (see evidence explanation)."""
import re

from ..common import Report, finish
from ..facts import AnalysisBroken
from ..terms import C, ZERO, short, is_const, INF, mk_byte, mk_cat, bitop_byte, lin_of, Dom
from .. import mem
from .dispatch import OP, OPNAME
from .c03 import own_mac_byte
from .frame_common import (FrameSetup, run_regions, Snap, sends, effects, SEEN_COUNT, TOS, OPC, request_alloc)
from .automata_common import load_core

WEAK = re.compile(r'^weak:SEEN\+(\d+)#')
DESC = 20
FIRST = 34


def weak_off(t):
    """Offset inside a list node for a weak-load atom (possibly wrapped in cat/byte)."""
    if t[0] == 'byte' and len(t) == 3 and t[2] == 0 and t[1][0] == 'sym':
        t = t[1]          # the low byte of a one-byte load
    if t[0] == 'sym':
        m = WEAK.match(str(t[1]))
        if m:
            return int(m.group(1))
    return None


class RuleView(object):
    """Lets another property's check re-decide these obligations under its own rule id (None = not its concern)."""

    def __init__(self, rep, mapping):
        self.rep, self.mapping = rep, mapping
        self.samples, self.analysed = rep.samples, rep.analysed

    def check(self, ok, rule, key, msg, **kw):
        r = self.mapping.get(rule)
        if r is not None:
            kw.pop('sample', None)
            self.rep.check(ok, r, '%s|%s' % (rule, key), msg, **kw)

    def fail(self, rule, key, msg, **kw):
        r = self.mapping.get(rule)
        if r is not None:
            self.rep.fail(r, '%s|%s' % (rule, key), msg, **kw)

    def ok(self, rule, **kw):
        pass

    def broke(self, msg):
        self.rep.broke(msg)

    def note(self, msg):
        if hasattr(self.rep, 'note'):
            self.rep.note(msg)

    def rule(self, *a, **k):
        pass


def run(tier):
    rep = Report('C07', tier)
    prog = load_core('systemd')
    # premise of everything decided per interface record: the lookup hands out the record keyed by the interface (hit only after
    # comparing the context), creates an all-zero one only on a miss, and never stores into or re-links an existing record
    rep.rule('R07.k', 'the interface-record lookup: hit only on an equal context, fresh record all-zero and keyed by the context, existing records untouched', floor=3)
    from .state_record import check_state_for_iface
    check_state_for_iface(rep, prog, 'R07.k')
    rep.rule('R07.a', 'an observation is linked only when the real destination equals the own address; otherwise nothing is stored or allocated', floor=3)
    rep.rule('R07.b', 'de-duplication key is exactly (Ethernet source, real source)', floor=1)
    rep.rule('R07.l', 'the QueryResp is built and released within its request (no buffer retained, nothing freed or sent through a pointer of unknown provenance)', floor=1)
    rep.rule('R07.c', 'field mapping frame -> node -> wire descriptor is type, real source, Ethernet source, Ethernet destination (identity, 20 bytes)', floor=20)
    rep.rule('R07.d', 'QueryResp: sequence number of the Query; destination = real source, or broadcast iff real source != Ethernet source', floor=14)
    rep.rule('R07.e', "more observations than fit: 'more' bit (bit 15 of the count field) set and the unsent remainder is kept", floor=2)
    rep.rule('R07.f', 'observations that were reported are released; a complete report empties the list', floor=2)
    rep.rule('R07.g', 'count bookkeeping: linking adds exactly one, the recorded count is what the report uses', floor=2)
    rep.rule('R07.h', 'the list accepts at least 300 distinct observations between Queries (property quantifier)', floor=1)
    rep.rule('R07.j', 'only Probe/Train (add), Query (report and release) and Reset (discard) touch the record of observations: every other (ToS, opcode) cell leaves list head and count unchanged', floor=20)
    rep.rule('R07.i', 'every descriptor announced in the count field is serialised: the report loop stops only when all announced descriptors are copied (or the list ends); frame length = 34 + 20 x announced count', floor=2)
    decide(rep, prog)
    return finish(rep, 'other',
                  'Decides the inductive ingredients of C07 on the interpreted code: filter, de-duplication key, exact field mapping frame->node->wire, sequence and destination rule, '
                  "truncation with 'more' bit and retained remainder, release after reporting, count bookkeeping, capacity >= 300. "
                  'The history-level statement (multiset equality of observations and reports for every history) follows from these by induction on the list and is not itself enumerated; '
                  'the heap-shape invariant count = list length is the part not proved as a theorem.',
                  'abstract interpretation with summary list node (weak object) + inductive loop summaries; origin analysis', exhaustive=False)


def decide(rep, prog):
    fnf = 'lltdResponder/lltdBlock.c'
    fs = FrameSetup(prog, mtu_ok=True)
    fs.keep_iter_states = True
    bpred = [(('in', 'frame', 24 + i), ('in', 'frame', 6 + i)) for i in range(6)]
    orig_run = fs.run

    def run_with(**kw):
        I, outs = orig_run(**kw)
        return I, outs
    res, obs, stats = run_regions(fs, regions=['topo.rest', 'topo.query'], jobs=2)
    # what a QueryResp reports is what the list holds now: the response is built in a buffer of this very request and released
    # with it - a response kept across requests (a retransmission cache) reports observations of another moment, and nothing
    # handled here may free or send through a pointer of unknown provenance
    from .dispatch import fail_obligations
    from .frame_common import live_heap
    fail_obligations(rep, obs, 'R07.l', kinds=('bad-free', 'use-after-free', 'double-free', 'dangling', 'wild-deref'))
    for st_q, _r in res['topo.query']:
        lv = [o_ for o_ in live_heap(fs, st_q) if 'probe' not in o_.lower() and 'cached' not in o_]
        rep.check(not lv, 'R07.l', 'query|retained-buffer', 'the Query cell returns with %s still allocated: a response buffer that outlives its request' % lv,
                  function='parseQuery', file=fnf)
    prec = fs.prec
    noff = {f[0]: f[1] for f in prec.fields}
    node_from_frame = {}       # node offset -> frame offset
    # (first: it also tells which locals are the search loop's match accumulators, used by the "dropped" rule below)
    dedupe_key_check(rep, stats['topo.rest']['loops'], noff, 'R07.b', fnf)
    # ---------------- observer (parseProbe)
    linked = dropped = notforus = 0
    for st, ret in res['topo.rest']:
        opd = st.dom(OPC)
        if not (opd.contains(OP['probe']) or opd.contains(OP['train'])):
            continue          # (a path that has not looked at the opcode yet - an early drop in the dispatcher - concerns probes too)
        so = st.objs.get('st')
        if so is None:
            continue
        allocs = [e for e, _ in effects(st, 'malloc') if request_alloc(e[1])]
        failed = any(e[0] == 'malloc-failed' for e in st.trace)
        forus = all(own_mac_byte(st, ('in', 'frame', 18 + i), i) for i in range(6))
        cnt = st.canon(mem.load_scalar(st, so, C(fs.soff('see_list_count')), fs.ix.parse_type('unsigned int')))
        head = st.canon(mem.load_scalar(st, so, C(fs.soff('see_list')), fs.ix.parse_type('void *')))
        new_node = head[0] == 'ptr' and request_alloc(head[1])
        if not forus:
            notforus += 1
            if st.tags.get('pred:U') is not False and not failed:
                # neither recorded nor known to be for another station: the frame was dropped before / without the
                # "addressed to us" test deciding it
                new_node_ = head[0] == 'ptr' and request_alloc(head[1])
                rep.check(new_node_, 'R07.a', 'observer|dropped-untested', 'a Probe/Train is dropped on a path that never established that its real destination differs '
                          'from the own address: probes addressed to this station can be lost there', function='parseProbe', file=fnf)
            ok = not allocs and not new_node and st.same(cnt, SEEN_COUNT)
            rep.check(ok or failed, 'R07.a', 'observer|not-for-us', 'a Probe/Train whose real destination is not known to be the own address %s'
                      % ('is linked into the observation list' if new_node else 'allocates or changes the count'), function='parseProbe', file=fnf)
            continue
        if new_node:
            linked += 1
            o = st.objs[head[1]]
            rep.check(st.same(cnt, ('add', SEEN_COUNT, C(1))), 'R07.g', 'observer|count-plus-one', 'linking an observation changes the count from %s to %s' % (short(SEEN_COUNT), short(cnt)),
                      function='parseProbe', file=fnf, sample={'count_after_link': short(cnt)})
            # node fields
            want = {'realSourceAddr': 24, 'sourceAddr': 6, 'destAddr': 0}
            for fname, foff in want.items():
                for i in range(6):
                    b = st.canon(mem.load_byte(st, o, (), noff[fname] + i))
                    ok = b == ('in', 'frame', foff + i)
                    rep.check(ok, 'R07.c', 'node|%s' % fname, 'recorded %s byte %d is %s, expected frame byte %d' % (fname, i, short(b), foff + i), function='parseProbe', file=fnf)
                    if b[0] == 'in' and b[1] == 'frame':
                        node_from_frame[noff[fname] + i] = b[2]
            t0, t1 = st.canon(mem.load_byte(st, o, (), noff['type'])), st.canon(mem.load_byte(st, o, (), noff['type'] + 1))
            opc = st.dom(OPC).const()
            rep.check(t0 == ZERO and t1 == C(1 if opc == OP['probe'] else 0), 'R07.c', 'node|type', 'recorded type bytes %s %s for opcode %s' % (short(t0), short(t1), opc),
                      function='parseProbe', file=fnf)
            nxt = st.canon(mem.load_scalar(st, o, C(noff['nextProbe']), fs.ix.parse_type('void *')))
            old_head = st.canon(('pset', ('in', 'st', fs.soff('see_list')), (ZERO, ('ptr', 'SEEN', ZERO))))
            rep.check(nxt == old_head, 'R07.f', 'observer|link-keeps-tail',
                      'the new node points to %s, not to the previous list head %s: earlier observations are lost' % (short(nxt), short(old_head)), function='parseProbe', file=fnf)
            # capacity: linking must be possible with at least 299 prior observations
            d = st.dom(SEEN_COUNT)
            rep.check(d.contains(299) and d.contains(0), 'R07.h', 'observer|capacity', 'an observation is only linked while the list holds %s entries; the property needs 300 between Queries' % d,
                      function='parseProbe', file=fnf, sample={'count_range_on_link_path': repr(d)})
        else:
            dropped += 1
            # a Probe/Train addressed to this station that is NOT recorded needs a reason the property allows: an allocation
            # failed, an equal observation is already recorded, or the list is at its cap - not some other test on the frame
            dup = any(weak_off(a) is not None or weak_off(b) is not None for a, b in st.eq.items()) or accumulated_match(st)
            capped = st.dom(SEEN_COUNT).lo >= 300
            rep.check(failed or dup or capped, 'R07.a', 'observer|dropped', 'a Probe/Train whose real destination is the own address is dropped without being recorded, and not because '
                      'of an allocation failure, an equal recorded observation or a full list (count %s): some other condition on the frame decides' % st.dom(SEEN_COUNT),
                      function='parseProbe', file=fnf)
            live = [oid for oid, ob in st.objs.items() if request_alloc(oid) and ob.live]
            rep.check(not live or failed, 'R07.f', 'observer|drop-frees', 'a duplicate / rejected observation leaves its node allocated', function='parseProbe', file=fnf)
            rep.check(st.same(cnt, SEEN_COUNT) or failed, 'R07.g', 'observer|drop-count', 'count changes although no node was linked', function='parseProbe', file=fnf)
    if linked == 0:
        rep.fail('R07.a', 'observer|never-links', 'no path links an observation', function='parseProbe', file=fnf)
    rep.ok('R07.a', n=1)
    # de-duplication key from the dedupe loop's breaking iteration

    # ---------------- reporter (parseQuery)
    ql = sorted(stats['topo.query']['loops'])      # every loop of the Query cell; the report loop is recognised by what it writes
    wire_ok = False
    report_loops = set()
    for l in ql:
        info = stats['topo.query']['loops'][l]
        for kind, trace, st in (info['iter_states'] or []):
            # a completed iteration k must leave node bytes 0..19 at response offset 34 + 20k, however they got there
            # (staging struct + memcpy, field-wise stores through a cast pointer, a byte loop): only the resulting
            # buffer contents are examined, never the copying idiom
            if kind != 'continue':
                continue
            bufs = [oid for oid, ob in st.objs.items() if request_alloc(oid) and ob.live]
            if len(bufs) != 1:
                continue
            buf = st.objs[bufs[0]]
            k = ('sym', 'iter:' + l, 0, INF)
            base = ('add', ('mul', C(DESC), k), C(FIRST))
            got = [st.canon(mem.load_bytes(st, buf, ('add', base, C(r)), 1)[0]) for r in range(DESC)]
            if not any(weak_off(b) is not None for b in got):
                continue          # not the report loop (e.g. the release loop)
            for r in range(DESC):
                okr = weak_off(got[r]) == r
                rep.check(okr, 'R07.c', 'wire|byte%d' % r, 'after iteration k of the report loop, response byte 34 + 20k + %d is %s, expected byte %d of the k-th observation'
                          % (r, short(got[r]), r), function='parseQuery', file=fnf)
                if okr:
                    wire_ok = True
                    report_loops.add(l)
    # the report loop may only be left through its condition (all announced descriptors copied / list ended)
    for l in sorted(report_loops):
        info = stats['topo.query']['loops'][l]
        # (a `break` taken at the top of an iteration because the list cursor is NULL, before anything was done in it, is the
        #  "list ended" conjunct of the loop condition written as a statement)
        early = [kind for kind, trace, st in (info['iter_states'] or []) if kind in ('break', 'return')
                 and not (kind == 'break' and not [e for e in trace if e[0] in ('memcpy', 'send', 'free', 'malloc')] and cursor_null_in(info, st))]
        rep.check(not early, 'R07.i', 'report-loop|early-exit',
                  'the report loop can be left early (%s) before all announced descriptors are copied: the QueryResp then announces more observations than it carries and the '
                  'uncopied ones are released with the rest' % ','.join(sorted(set(early))), function='parseQuery', file=fnf,
                  sample={'report_loop_exits': 'condition only'})
    if not wire_ok:
        rep.fail('R07.c', 'wire|no-serialisation', 'no iteration of the report loop copies a node into the response', function='parseQuery', file=fnf)
    # oracle order: type(2) real-src(6) src(6) dst(6) in terms of the frame that was observed
    order = {}
    for r in range(2, DESC):
        order[r] = node_from_frame.get(r)
    want_order = {}
    for i in range(6):
        want_order[2 + i] = 24 + i
        want_order[8 + i] = 6 + i
        want_order[14 + i] = i
    rep.check(order == want_order, 'R07.c', 'wire|oracle-order', 'descriptor layout (bytes 2..19 by observed-frame offset) is %s, expected real source, Ethernet source, Ethernet destination' % order,
              function='parseQuery', file=fnf)
    # final states of the Query cell
    nq = 0
    nominal_seen = [0]
    truncated_paths = [0]
    for st, ret in res['topo.query']:
        if any(e[0] == 'malloc-failed' for e in st.trace):
            # nothing was reported on a path that sent nothing: the recorded observations stay for the mapper's next Query
            if not sends(st) and st.objs.get('st') is not None:
                lost = [e for e, _ in effects(st, 'free') if e[1] == 'SEEN']
                cnt_f = st.canon(mem.load_scalar(st, st.objs['st'], C(fs.soff('see_list_count')), fs.ix.parse_type('unsigned int')))
                rep.check(not lost and st.same(cnt_f, SEEN_COUNT), 'R07.f', 'query|unreported-released',
                          'a Query that could not be answered (allocation refused, no frame sent) releases recorded observations / leaves count %s: they are never reported'
                          % short(cnt_f), function='parseQuery', file=fnf)
            continue
        sn = sends(st)
        rep.check(len(sn) == 1, 'R07.d', 'query|one-response', 'a Query is answered by %d frames' % len(sn), function='parseQuery', file=fnf)
        if len(sn) != 1:
            continue
        nq += 1
        S = Snap(st, sn[0][0])
        rep.check(st.same(S.byte(30), ('in', 'frame', 30)) and st.same(S.byte(31), ('in', 'frame', 31)), 'R07.d', 'query|seq',
                  'QueryResp sequence bytes %s %s are not the Query\'s' % (short(st.canon(S.byte(30))), short(st.canon(S.byte(31)))), function='parseQuery', file=fnf)
        eq = sum(1 for a, b in bpred if st.canon(a) == st.canon(b))
        ne = any(st.known_neq(a, b) for a, b in bpred)
        pb = st.tags.get('pred:B')
        bridged = None if pb is None else (not pb)
        if eq == 6:
            bridged = False
        elif ne:
            bridged = True
        for i in range(6):
            for off, what in ((i, 'Ethernet destination'), (18 + i, 'real destination')):
                got = st.canon(S.byte(off))
                if bridged is True:
                    ok = got == C(0xFF)
                elif bridged is False:
                    ok = st.same(got, ('in', 'frame', 24 + i))
                else:
                    ok = False
                rep.check(ok, 'R07.d', 'query|dest', 'QueryResp %s byte %d is %s with the mapper %s' % (
                    what, i, short(got), {True: 'behind a bridge (expected broadcast)', False: 'directly attached (expected its real address)', None: 'in an unexamined position'}[bridged]),
                    function='parseQuery', file=fnf)
        # count field and truncation
        hi, lo = st.canon(S.byte(32)), st.canon(S.byte(33))
        announced = None
        cap_ = ('div', ('add', fs.frame_size, C(-FIRST)), C(DESC))
        if st.prove_lt(cap_, SEEN_COUNT):
            announced = cap_
        elif st.prove_le(SEEN_COUNT, cap_):
            announced = SEEN_COUNT
        if announced is not None:
            want_len = ('add', ('mul', C(DESC), announced), C(FIRST))
            exact = st.same(S.length, want_len) or (st.prove_le(S.length, want_len) and st.prove_le(want_len, S.length))
            # (independent of which conjunct of the loop condition is written first: only 'not longer than announced' is required)
            # leaving because the list ended before `announced` nodes contradicts count = list length (not proved here): tolerated -
            # but only when the loop really was left with its list cursor NULL, not through some other conjunct of its condition
            list_ended = (not exact) and st.prove_le(S.length, want_len) and cursor_null_at_exit(st, stats['topo.query']['loops'], report_loops)
            rep.check(exact or list_ended, 'R07.i', 'length-vs-count',
                      'QueryResp announces %s descriptors but its length is %s, not 34 + 20 x that count' % (short(announced), short(st.canon(S.length))),
                      function='parseQuery', file=fnf, sample={'announced': short(announced), 'length': short(st.canon(S.length))} if len(rep.samples) < 40 else None)
        so = st.objs['st']
        cnt_after = st.canon(mem.load_scalar(st, so, C(fs.soff('see_list_count')), fs.ix.parse_type('unsigned int')))
        head = st.canon(mem.load_scalar(st, so, C(fs.soff('see_list')), fs.ix.parse_type('void *')))
        cap = ('div', ('add', fs.frame_size, C(-FIRST)), C(DESC))
        over = st.prove_lt(cap, SEEN_COUNT)
        fits = st.prove_le(SEEN_COUNT, cap)
        if over:
            truncated_paths[0] += 1
            num = cap
            exp_hi = st.canon(bitop_byte('or', st.canon(mk_byte(num, 1)), C(0x80), None, 1))
            okm = same_b(st, hi, exp_hi) and same_b(st, lo, mk_byte(num, 0))
            rep.check(okm, 'R07.e', 'query|more-bit', "more observations than fit (%s > capacity): count field bytes are %s %s; expected capacity with the 'more' bit (0x8000) set"
                      % (short(SEEN_COUNT), short(hi), short(lo)), function='parseQuery', file=fnf, sample={'truncated': True, 'count_field': [short(hi), short(lo)]})
            tgt = ('sub', SEEN_COUNT, cap)
            nominal = st.same(cnt_after, tgt) or (st.prove_le(cnt_after, tgt) and st.prove_le(tgt, cnt_after))
            # (the drop loop left by `if (head == NULL) return/break;` instead of through its condition: the list ended)
            early = (any(str(k).startswith('exit:') for k in st.tags)
                     or (head == ZERO and any(str(k).startswith(('left-by-return:', 'left-by-break:')) for k in st.tags))) and not nominal
            if nominal:
                nominal_seen[0] += 1
                kept = head != ZERO
                rep.check(kept, 'R07.e', 'query|keeps-rest', 'more observations than fit: after the report the list is empty although %s observations were not reported'
                          % short(cnt_after), function='parseQuery', file=fnf)
            else:
                # leaving the drop loop because the list ended before `reported` nodes were dropped contradicts
                # count = list length (the heap-shape invariant this check does not prove): tolerated, not counted
                rep.check(early, 'R07.g', 'query|count-after-partial', 'count after a partial report is %s, expected count - reported' % short(cnt_after),
                          function='parseQuery', file=fnf)
        elif fits:
            okc = same_b(st, hi, mk_byte(SEEN_COUNT, 1)) and same_b(st, lo, mk_byte(SEEN_COUNT, 0))
            rep.check(okc, 'R07.g', 'query|count-field', 'count field bytes %s %s are not the recorded number of observations' % (short(hi), short(lo)), function='parseQuery', file=fnf,
                      sample={'truncated': False, 'count_field': [short(hi), short(lo)]})
            rep.check(st.same(cnt_after, ZERO) and head == ZERO, 'R07.f', 'query|emptied', 'after a complete report the list is %s / count %s' % (short(head), short(cnt_after)),
                      function='parseQuery', file=fnf)
            frees = [e for e, _ in effects(st, 'free') if e[1] == 'SEEN']
            d = st.dom(SEEN_COUNT)
            # (a path on which the list was found empty although the count is not 0 contradicts count = list length, the
            #  heap-shape invariant not proved here: nothing to release there - tolerated as in R07.g / R07.i)
            entry_head = st.canon(('pset', ('in', 'st', fs.soff('see_list')), (ZERO, ('ptr', 'SEEN', ZERO))))
            rep.check(bool(frees) or d.hi == 0 or entry_head == ZERO, 'R07.f', 'query|frees-nodes', 'reported observations are not released', function='parseQuery', file=fnf)
        else:
            rep.fail('R07.e', 'query|capacity-unchecked', 'a path reports observations without comparing their number with the frame capacity', function='parseQuery', file=fnf)
    if nq == 0:
        rep.broke('no Query response path found')
    if truncated_paths[0] and not nominal_seen[0]:
        rep.fail('R07.g', 'query|count-after-partial-nominal', 'no path of a partial report leaves count = count - reported', function='parseQuery', file=fnf)
    rep.analysed.update({'observer_paths': {'linked': linked, 'dropped': dropped, 'not_for_us': notforus}, 'query_paths': nq, 'node_from_frame': node_from_frame})
    keep_between_queries(rep, fnf)


def keep_between_queries(rep, fnf):
    """R07.j: the record of observations lives from Probe/Train to the Query that reports it (or the Reset that discards it):
    in the complete dispatch matrix, every other (ToS, opcode) cell - Discover, Hello, Emit, QueryLargeTlv, frames of other
    services, unknown opcodes - leaves the list head and its count exactly as they were."""
    from .dispatch import analyse
    from .frame_common import record_field
    fs2, sums, _obs, _stats = analyse(mtu_ok=True)
    roles = [record_field(fs2.srec, r)[0] for r in ('see_list', 'see_list_count')]
    may = {OP['probe'], OP['train'], OP['query'], OP['reset']}
    n = 0
    for region, lst in sorted(sums.items()):
        for s in lst:
            tv, ov = s.tos.values(), s.op.values()
            if all(t in (0, 1) for t in tv) and set(ov) <= may:
                continue
            n += 1
            touched = [f for f in s.changed_fields(()) if f in roles]
            what = 'ToS %s, opcode %s' % (s.tos, '+'.join(OPNAME.get(o, str(o)) for o in ov) if len(ov) <= 4 else s.op)
            rep.check(not touched, 'R07.j', 'list-touched|%s|%s' % (','.join(str(t) for t in tv) if len(tv) <= 2 else 'tos[%d..%d]' % (tv[0], tv[-1]),
                                                                      '+'.join(OPNAME.get(o, str(o)) for o in ov) if len(ov) <= 4 else 'op[%d..%d]' % (ov[0], ov[-1])),
                      'a frame that is neither Probe/Train, Query nor Reset of the discovery services (%s) changes the record of observations (%s): '
                      'observations no Query has reported are lost or altered between Queries' % (what, ', '.join(touched)),
                      function='parseFrame', file=fnf)
    if n == 0:
        rep.broke('dispatch matrix has no cell outside Probe/Train/Query/Reset')
    # a topology Reset discards the record, whatever else the responder believes about its session (mapper known or not)
    nres = 0
    for region, lst in sorted(sums.items()):
        for s in lst:
            if s.tos.values() == [0] and s.op.values() == [OP['reset']]:
                nres += 1
                head = s.st.canon(mem.load_scalar(s.st, s.so, C(fs2.soff('see_list')), fs2.ix.parse_type('void *')))
                cnt = s.field('see_list_count', 4)
                rep.check(head == ZERO and cnt == ZERO, 'R07.j', 'reset-discards|%s' % region,
                          'a topology Reset (mapper known at entry: %s) leaves the record of observations in place (list head %s, count %s): the next QueryResp reports '
                          'observations from before the Reset' % (s.k_pre, short(head), short(cnt)), function='parseFrame', file=fnf)
    if nres == 0:
        rep.broke('no topology Reset cell in the dispatch matrix')
    # ... and no cell at all stores into the link field of an observation that is already in the list: the list is extended
    # at its head and released from its head, a rewritten link cuts the observations behind it off (never reported)
    from .safety import link_stores
    m = 0
    for region, lst in sorted(sums.items()):
        for s in lst:
            m += 1
            ls = link_stores(fs2, s.st)
            rep.check(not ls, 'R07.j', 'link-rewritten|%s' % region,
                      'a frame (ToS %s, opcode %s) stores into the link field of an already recorded observation (offset/size %s): the observations behind it '
                      'are cut off the list and never reported' % (s.tos, s.op, ls), function='parseFrame', file=fnf)


def cursor_null_in(info, st):
    """Is the local that pointed into the observation list when the iteration started NULL in state st?"""
    start = info.get('iter_start')
    if start is None:
        return False
    for oid, ob in start.objs.items():
        if not oid.startswith('L:'):
            continue
        for key, (w, t) in ob.cells.items():
            t = start.canon(t)
            if (t[0] == 'ptr' and t[1] == 'SEEN') or (t[0] == 'pset' and 'SEEN' in repr(t)):
                ob2 = st.objs.get(oid)
                c = ob2.cells.get(key) if ob2 is not None else None
                if c is not None and st.canon(c[1]) == ZERO:
                    return True
    return False


def cursor_null_at_exit(st, loops, report_loops):
    """Was the report loop left, on the path leading to final state `st`, with its list cursor NULL?  The cursor is the
    local that pointed into the observation list when the iteration started; the exit snapshot is selected by the
    state's `exit:<loop>` tag (index of the failing conjunct's exit state)."""
    for l in report_loops:
        info = loops[l]
        if st.tags.get('left-by-break:' + l):
            # left through a `break`: the list ended iff every break of this loop happens with the cursor NULL
            brks = [s_ for kind, _tr, s_ in (info.get('iter_states') or []) if kind == 'break']
            if brks and all(cursor_null_in(info, s_) for s_ in brks):
                return True
            continue
        snaps = info.get('exit_snaps') or []
        start = info.get('iter_start')
        if not snaps or start is None:
            continue
        n = st.tags.get('exit:' + l, 0 if len(snaps) == 1 else None)
        if n is None or n >= len(snaps):
            continue
        cursors = []
        for oid, ob in start.objs.items():
            if not oid.startswith('L:'):
                continue
            for key, (w, t) in ob.cells.items():
                t = start.canon(t)
                if (t[0] == 'ptr' and t[1] == 'SEEN') or (t[0] == 'pset' and 'SEEN' in repr(t)):
                    cursors.append((oid, key))
        ex = snaps[n]
        for oid, key in cursors:
            ob = ex.objs.get(oid)
            c = ob.cells.get(key) if ob is not None else None
            if c is not None and ex.canon(c[1]) == ZERO:
                return True
    return False


ACCUMULATORS = set()      # (loop id, local) whose change in an iteration goes with a recognised key match


def accumulated_match(st):
    """Does the path know that the search loop's accumulator left its initial value 0 (a match was counted / flagged)?"""
    for l, oid in ACCUMULATORS:
        for name, v in st.tags.get('lw:' + l, ()):
            if name == oid and not st.dom(v).contains(0):
                return True
    return False


def dedupe_key_check(rep, loops, noff, rule, fnf):
    """An observation may be discarded as a duplicate only when an existing entry has the same Ethernet source AND the
    same real source: the (frame byte, node offset) pairs known equal when the search loop is left early."""
    # the search loop is recognised by what it does (leaves early knowing frame bytes equal to bytes of an existing node),
    # not by where it lives or how it leaves: in parseProbe or a helper, by `break` or by `return`
    keyset = None
    ACCUMULATORS.clear()
    for l in loops:
        start = loops[l].get('iter_start')
        # (a search written as `while (cur && !same_key(cur)) cur = next;` leaves through its condition knowing the key)
        via_cond = [('break', (), s_) for s_ in (loops[l].get('exit_snaps') or [])]
        for kind, trace, st in list(loops[l]['iter_states'] or []) + via_cond:
            changed = []
            if kind not in ('break', 'return'):
                # a scan without early exit: an iteration that changes an accumulator local (sets a flag, counts a match)
                if start is None:
                    continue
                for oid, ob in start.objs.items():
                    if not oid.startswith('L:'):
                        continue
                    ob2 = st.objs.get(oid)
                    for key, (w, t) in ob.cells.items():
                        c2 = ob2.cells.get(key) if ob2 is not None else None
                        if c2 is None or key[0] or start.canon(t)[0] in ('ptr', 'pset', 'fn'):
                            continue
                        ta, tb = st.canon(t), st.canon(c2[1])
                        if ta != tb and not st.same(ta, tb) and ('iter:' + l) not in repr(ta):
                            changed.append(oid)
                if not changed:
                    continue
            pairs = set()
            for t, r in st.eq.items():
                for a, b in ((t, r), (r, t)):
                    w = weak_off(a)
                    bb = st.canon(b)
                    if w is not None and bb[0] == 'in' and bb[1] == 'frame':
                        pairs.add((bb[2], w))
            if not pairs:
                continue          # some other loop left early
            keyset = pairs if keyset is None else (keyset | pairs)
            for oid in changed:
                ACCUMULATORS.add((l, oid))
    want = set((6 + i, noff['sourceAddr'] + i) for i in range(6)) | set((24 + i, noff['realSourceAddr'] + i) for i in range(6))
    if keyset is None:
        rep.fail(rule, 'dedupe|no-early-exit', 'the observation list is not searched for an existing entry before linking', function='parseProbe', file=fnf)
    else:
        extra, missing = sorted(keyset - want), sorted(want - keyset)
        rep.check(keyset == want, rule, 'dedupe|key',
                  'an existing observation is recognised by comparing (frame byte, node offset) pairs that differ from "Ethernet source and real source": '
                  'not compared %s, compared instead %s - a probe from another station can be discarded as a duplicate' % (missing[:6], extra[:6]),
                  function='parseProbe', file=fnf, sample={'dedupe_key_pairs': sorted(keyset)})


def same_b(st, a, b):
    a, b = st.canon(a), st.canon(b)
    if a == b or st.same(a, b):
        return True
    if a[0] == 'or' and b[0] == 'or':
        return set(a[1:]) == set(b[1:])
    return False
