"""C17 — interfaces are isolated from each other, also when served concurrently.

R17.1  inventory of mutable static-duration storage in the core;
R17.2  the per-interface record is selected by the context pointer only, and
       every port effect of parseFrame carries that same context;
R17.3  lockset: functions reachable from a pthread_create start routine that
       touch R17.1's storage must do so under a lock (threads are created in a
       loop, so at least two run the same code)."""
import os

from ..common import Report, finish
from ..facts import AnalysisBroken, walk, REPO
from .. import facts
from .automata_common import load_core
from .state_record import check_state_for_iface
from .frame_common import FrameSetup, run_regions, sends, effects, BLOCK_UNIT

LOCKS = {'pthread_mutex_lock', 'pthread_spin_lock', 'pthread_rwlock_wrlock', 'pthread_rwlock_rdlock', 'lltd_port_lock', 'lltd_port_mutex_lock',
         '__atomic_load_n', '__atomic_store_n', '__atomic_compare_exchange_n', 'atomic_load', 'atomic_store'}
CORE_DIR = os.path.join(REPO, 'lltdResponder') + os.sep


def is_core(node):
    return (node.get('_file') or '').startswith(CORE_DIR)


def mutable_statics(ix):
    """VarDecls with static storage duration that are not const, defined in core files of this unit."""
    out = []
    for n in walk(ix.unit.ast):
        if n.get('kind') != 'VarDecl' or not is_core(n):
            continue
        file_scope = n.get('_fn') is None
        if not file_scope and n.get('storageClass') != 'static':
            continue
        if n.get('storageClass') == 'extern':
            continue
        qt = n['type']['qualType']
        outer = qt.split('*')[-1] if '*' in qt else qt
        const = 'const' in outer.split('[')[0].split()
        if qt.rstrip().endswith('*const'):
            const = True
        if not const:
            out.append(n)
    return out



def global_use_rule(rep, prog, rule):
    """The list of interface records is used only by the context-keyed lookup (and by pure observers off the frame path): a
    handler that walks it reads or writes another interface's record."""
    from .frame_common import iface_list_name
    LIST = iface_list_name(prog)
    # uses of the global: only inside the lookup function
    for ix in prog.index.values():
        # the lookup "module": lltd_state_for_iface and the static helpers all of whose callers belong to it
        callers = {}
        for fname, fn in ix.functions.items():
            for n in walk(fn):
                if n.get('kind') == 'CallExpr' and n.get('inner'):
                    c = callee(n)
                    if c:
                        callers.setdefault(c, set()).add(fname)
        from .frame_common import state_lookup_name
        module = {state_lookup_name(prog)}
        grew = True
        while grew:
            grew = False
            for fname, fn in ix.functions.items():
                if fname not in module and fn.get('storageClass') == 'static' and callers.get(fname) and callers[fname] <= module:
                    module.add(fname)
                    grew = True
        on_frame_path = set(reachable(prog, prog.unit(BLOCK_UNIT), 'parseFrame'))
        for fname, fn in ix.functions.items():
            if not is_core(fn):
                continue
            for n in walk(fn):
                if n.get('kind') == 'DeclRefExpr' and n.get('referencedDecl', {}).get('name') == LIST:
                    # besides the lookup module, a pure observer is harmless: a function that is not reachable from the frame
                    # handler (it cannot influence what is sent) and only reads the list and the records (statistics accessor)
                    observer = fname not in on_frame_path and read_only_walker(fn, LIST)
                    rep.check(fname in module or observer, rule, 'global-use|%s' % fname,
                              'the interface list is accessed in %s, outside the context-keyed lookup%s' % (
                                  fname, ' (reachable from the frame handler)' if fname in on_frame_path else ' (and it writes the list or a record)'),
                              node=n, function=fname)

def run(tier):
    rep = Report('C17', tier)
    fnf = 'lltdResponder/lltdBlock.c'
    rep.rule('R17.1', 'mutable storage with static duration in the core is exactly the per-interface state list', floor=1)
    rep.rule('R17.2', 'the record is selected by pointer equality on the context; every port effect of parseFrame carries the caller\'s context', floor=50)
    rep.rule('R17.4', 'handling a frame never rewrites the link or the key of the interface record (the list of records stays intact)', floor=50)
    rep.rule('R17.3', 'functions reachable from a thread start routine access shared mutable core storage only under a lock', floor=1)
    prog = load_core('systemd')
    from .frame_common import iface_list_name
    LIST = iface_list_name(prog)      # by type, not by name
    # ---- R17.1
    glob = {}
    for ix in prog.index.values():
        for n in mutable_statics(ix):
            glob[(n.get('name'), n.get('_fn'))] = (ix, n)
    names = sorted(k[0] for k in glob)
    for (name, fn), (ix, n) in sorted(glob.items()):
        ok = name == LIST and fn is None
        rep.check(ok, 'R17.1', 'static|%s|%s' % (os.path.relpath(n['_file'], REPO), name),
                  'the core has mutable static storage `%s`%s besides the per-interface state list: state shared by all interfaces' % (name, ' (in %s)' % fn if fn else ''),
                  node=n, function=fn, sample={'mutable_static': name})
    if LIST not in names:
        rep.broke('anchor: list head of interface records vanished')
    # ---- R17.2
    check_state_for_iface(rep, prog, 'R17.2')
    fs = FrameSetup(prog, mtu_ok=True)
    res, obs, stats = run_regions(fs)
    # what goes out on one interface must not carry bytes left in recycled heap memory by the handling of another interface's
    # frames: every byte below the transmitted length is determined by a store or the zero fill
    rep.rule('R17.5', 'no transmitted byte is left to recycled heap memory (an undetermined byte is a channel between interfaces): every byte below the frame length is determined', floor=8)
    from .frame_common import Snap, effects as _effects
    for region_, outs_ in sorted(res.items()):
        for st_, _ret in outs_:
            for e_, _c in _effects(st_, 'send'):
                sn_ = Snap(st_, e_[1])
                ok_, why_ = sn_.initialised_upto(sn_.length)
                rep.check(ok_, 'R17.5', '%s|%s|init' % (region_, sn_.d['fn']), '%s transmits undetermined bytes (%s): what they hold is whatever the heap block held before - possibly '
                          'left there while serving another interface' % (sn_.d['fn'], why_), function=sn_.d['fn'], file='lltdResponder/lltdBlock.c')
    ctx = ('ptr', 'ext:ctx', ('c', 0))
    neff = 0
    for region, outs in res.items():
        for st, ret in outs:
            for e, c in effects(st, 'get'):
                if e[2] is not None:
                    neff += 1
                    rep.check(st.canon(e[2]) == ctx, 'R17.2', 'getter-ctx|%s' % e[1], 'port getter %s is asked about context %s, not the one the frame arrived on' % (e[1], e[2]),
                              function='parseFrame', file=fnf)
            for sn, c in sends(st):
                neff += 1
                rep.check(st.canon(sn.d['ctx']) == ctx, 'R17.2', 'send-ctx|%s' % sn.d['fn'], '%s transmits on context %s, not the one the frame arrived on' % (sn.d['fn'], sn.d['ctx']),
                          function=sn.d['fn'], file=fnf)
    record_link_rule(rep, 'R17.4', fs, res, fnf)
    # ---- R17.3 lockset over the daemons that parse here
    daemons = [('systemd', 'os/linux/daemon/linux-main.c'), ('embedded', 'os/linux/daemon/linux-embedded-main.c')]
    analysed = []
    for config, main in daemons:
        units = [u for u in facts.compile_db() if u.config == config]
        facts.load_units(units)
        bad = [u for u in units if u.ast is None]
        if bad:
            rep.note('not covered (does not parse here): %s' % [(u.path, u.error) for u in bad])
        dprog = facts.Program(units)
        if main not in dprog.index:
            rep.note('daemon %s not parsed' % main)
            continue
        mix = dprog.index[main]
        starts = []
        for fname, fn in mix.functions.items():
            for n, in_loop in walk_loops(fn):
                if n.get('kind') == 'CallExpr' and callee(n) == 'pthread_create' and len(n['inner']) >= 4:
                    a = n['inner'][3]
                    while a.get('kind') in ('ImplicitCastExpr', 'ParenExpr', 'CStyleCastExpr', 'UnaryOperator'):
                        a = a['inner'][0]
                    if a.get('kind') == 'DeclRefExpr':
                        starts.append((a['referencedDecl']['name'], in_loop, n, fname))
        if not starts:
            rep.note('%s creates no threads' % main)
            continue
        for sname, in_loop, node, creator in starts:
            reach = reachable(dprog, mix, sname)
            locked = any(callee(n) in LOCKS for (ix, f) in reach.values() for n in walk(f) if n.get('kind') == 'CallExpr')
            touched = []
            for fname, (ix, f) in reach.items():
                for n in walk(f):
                    if n.get('kind') == 'DeclRefExpr' and n.get('referencedDecl', {}).get('kind') == 'VarDecl':
                        nm = n['referencedDecl']['name']
                        if (nm, None) in glob or any(k[0] == nm and k[1] == fname for k in glob):
                            touched.append((fname, nm, n, ix))
            # storage of the daemon itself that every interface thread would share: function-local statics in anything the
            # start routine reaches, and file-scope variables of the daemon's own units that such code writes
            for fname, (ix, f) in reach.items():
                for n in walk(f):
                    if n.get('kind') == 'VarDecl' and n.get('storageClass') == 'static':
                        qt = n['type']['qualType']
                        if 'const' in qt.split('[')[0].split('*')[-1].split():
                            continue
                        touched.append((fname, n.get('name'), n, ix))
                    lhs = None
                    if n.get('kind') in ('BinaryOperator', 'CompoundAssignOperator') and n.get('opcode', '').endswith('=') and n.get('opcode') not in ('==', '!=', '<=', '>='):
                        lhs = n['inner'][0]
                    elif n.get('kind') == 'UnaryOperator' and n.get('opcode') in ('++', '--'):
                        lhs = n['inner'][0]
                    while lhs is not None and lhs.get('kind') in ('ParenExpr', 'ArraySubscriptExpr', 'ImplicitCastExpr', 'MemberExpr') and lhs.get('inner'):
                        if lhs.get('kind') == 'MemberExpr' and lhs.get('isArrow'):
                            lhs = None       # a store through a pointer: the per-interface record / context
                            break
                        lhs = lhs['inner'][0]
                    if lhs is not None and lhs.get('kind') == 'DeclRefExpr':
                        rd = lhs.get('referencedDecl', {})
                        dn = rd.get('name')
                        if rd.get('kind') == 'VarDecl' and dn in getattr(ix, 'file_scope_vars', lambda: set())() and not (dn, None) in glob:
                            touched.append((fname, dn, n, ix))
            analysed.append({'daemon': main, 'start_routine': sname, 'created_in_loop': in_loop, 'functions_reachable': len(reach), 'lock_calls': locked,
                             'shared_accesses': sorted(set((f, g) for f, g, _, _ in touched))})
            for fname, nm, n, ix in touched:
                # the instance is the shared object (file + variable), not the function that happens to touch it: splitting
                # the lookup into helpers neither creates nor removes the race
                # the list head of interface records is one instance whatever it is called and wherever it lives
                key = 'interface-record-list' if nm == LIST else '%s|%s' % (os.path.relpath(n['_file'], REPO), nm)
                rep.check(locked or not in_loop, 'R17.3', key,
                          '%s: start routine %s (one thread per interface, created in a loop in %s) reaches %s, which reads/writes the shared `%s` without any lock - '
                          'two interfaces receiving their first frames together race on the list head' % (main, sname, creator, fname, nm), node=n, function=fname)
    rep.analysed.update({'mutable_statics': names, 'port_effects_checked': neff, 'lockset': analysed})
    return finish(rep, 'other',
                  'Sequential isolation: the core\'s only shared mutable storage is the interface list (inventory over the resolved ASTs), used solely by the context-keyed lookup; '
                  'the record it returns and the caller\'s context are the only state parseFrame reads or passes to the port (every getter/send effect of all 65 536 cells carries that '
                  'context) - so an interface\'s trace depends only on its own frames. Concurrent isolation: lockset over the call graph from each pthread_create start routine; the '
                  'unsynchronised access in lltd_state_for_iface is a recorded known finding. Memory-model subtleties beyond unsynchronised conflicting accesses and daemons that do not '
                  'parse here are not decided.',
                  'static inventory + origin check of port effects + lockset over the resolved call graph', exhaustive=False)


def read_only_walker(fn, LIST):
    """fn never stores into the list head or through a pointer to an interface record, and hands no writable record pointer on."""
    def strip(e):
        while e.get('kind') in ('ImplicitCastExpr', 'ParenExpr', 'CStyleCastExpr') and e.get('inner'):
            e = e['inner'][-1]
        return e

    def is_rec_ptr(qt):
        q = ' '.join((qt or '').replace('struct ', '').split())
        return q.replace('const ', '').replace(' const', '').strip() in ('lltd_iface_state *', 'lltd_iface_state **')

    def writes_record(lhs):
        lhs = strip(lhs)
        k = lhs.get('kind')
        if k == 'DeclRefExpr':
            return lhs.get('referencedDecl', {}).get('name') == LIST
        if k == 'MemberExpr':
            base = strip(lhs['inner'][0])
            bt = (base.get('type') or {}).get('qualType', '')
            if 'lltd_iface_state' in bt:
                return True
            return writes_record(base) if base.get('kind') in ('MemberExpr', 'ArraySubscriptExpr', 'UnaryOperator') else False
        if k == 'UnaryOperator' and lhs.get('opcode') == '*':
            return 'lltd_iface_state' in ((strip(lhs['inner'][0]).get('type') or {}).get('qualType', ''))
        if k == 'ArraySubscriptExpr':
            return writes_record(lhs['inner'][0])
        return False
    for n in walk(fn):
        k = n.get('kind')
        if k in ('BinaryOperator', 'CompoundAssignOperator') and n.get('opcode', '').endswith('=') and n.get('opcode') not in ('==', '!=', '<=', '>='):
            if writes_record(n['inner'][0]):
                return False
        if k == 'UnaryOperator' and n.get('opcode') in ('++', '--') and writes_record(n['inner'][0]):
            return False
        if k == 'UnaryOperator' and n.get('opcode') == '&':
            t = strip(n['inner'][0])
            if t.get('kind') == 'DeclRefExpr' and t.get('referencedDecl', {}).get('name') == LIST:
                return False
        if k == 'CallExpr':
            for a in n['inner'][1:]:
                qt = (strip(a).get('type') or {}).get('qualType', '')
                at = (a.get('type') or {}).get('qualType', '')
                if is_rec_ptr(qt) and 'const' not in at and 'const' not in qt:
                    return False
    return True


def callee(n):
    c = n['inner'][0]
    while c.get('kind') in ('ImplicitCastExpr', 'ParenExpr'):
        c = c['inner'][0]
    return c.get('referencedDecl', {}).get('name') if c.get('kind') == 'DeclRefExpr' else None


def walk_loops(fn):
    """Yield (node, inside_a_loop)."""
    stack = [(fn, False)]
    while stack:
        n, lp = stack.pop()
        if not isinstance(n, dict):
            continue
        yield n, lp
        inl = lp or n.get('kind') in ('ForStmt', 'WhileStmt', 'DoStmt')
        for c in reversed(n.get('inner') or []):
            stack.append((c, inl))


def reachable(prog, ix, start):
    out = {}
    work = [(ix, start)]
    while work:
        cix, name = work.pop()
        if name in out:
            continue
        dix, fn = prog.resolve(cix, name)
        if fn is None:
            continue
        out[name] = (dix, fn)
        for n in walk(fn):
            if n.get('kind') == 'CallExpr':
                c = callee(n)
                if c and c not in out:
                    work.append((dix, c))
    return out


def record_link_rule(rep, rule, fs, res, fnf='lltdResponder/lltdBlock.c'):
    """The list of records stays intact: no path of the frame handler rewrites a record's link to the other interfaces' records
    or the context it is keyed by (a record wiped as a whole takes every record behind it off the list)."""
    from .dispatch import Summary
    from .frame_common import record_field
    keyf = [record_field(fs.srec, r)[0] for r in ('next', 'iface_ctx')]
    nlink = 0
    for region, outs in sorted(res.items()):
        for st, ret in outs:
            if st.objs.get('st') is None:
                continue
            nlink += 1
            touched = [f for f in Summary(fs, region, st, ret).changed_fields(()) if f in keyf]
            rep.check(not touched, rule, 'record-link|%s' % region,
                      'a path of the frame handler (cell %s) rewrites %s of the interface record: the records of other interfaces linked behind it are cut off the list '
                      '(their state is lost and never released, their next frame starts from a blank record) or the record changes owner' % (region, ' and '.join(touched)),
                      function='parseFrame', file=fnf)
    if nlink == 0:
        rep.broke('no final state of parseFrame carries the interface record')
