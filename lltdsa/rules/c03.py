"""C03 — an accepted Discover is answered by exactly one correct Hello.

In the two Discover cells of the dispatch matrix, every path on which the
Discover is accepted (no mapper, or sender == active mapper) must transmit
exactly one frame whose header bytes have the required *origins*: constants,
the port's MAC, or specific bytes of this very Discover."""
from ..common import Report, finish
from ..terms import C, ZERO, short, is_const
from .dispatch import (analyse, OP, fail_obligations, F_ETH_SRC, F_REAL_SRC, frame_bytes, PORT_MAC, BCAST)
from .frame_common import diagnostic_offsets, TOS


def own_mac_byte(st, b, i):
    """Is byte term b 'the interface's own address' byte i (as supplied by the port)?"""
    b = st.canon(b)
    want = ('in', 'port.mac', i)
    if b == want:
        return True
    selt = ('sel', ('sym', 'rc.mac', -(1 << 31), (1 << 31) - 1), want, ZERO)
    if b == st.canon(selt) or b == st.canon(want):
        return True
    return b[0] == 'sel' and b[1] == ('sym', 'rc.mac', -(1 << 31), (1 << 31) - 1) and st.canon(b[2]) == want and st.canon(b[3]) == ZERO


def run(tier):
    rep = Report('C03', tier)
    fs, sums, obs, stats = analyse(mtu_ok=True, regions=['topo.discover', 'quick.discover', 'topo.rest', 'quick.rest'])
    rep.rule('R03.1', 'accepted Discover => exactly one frame is sent and it is a Hello', floor=4)
    rep.rule('R03.2', 'Hello header bytes: broadcast destinations, own MAC sources, EtherType 88D9, version 1, ToS of the Discover, reserved 0, sequence 0', floor=30)
    rep.rule('R03.3', 'Hello upper header: generation = bytes 32..33 of this Discover, current mapper = its real source, apparent mapper = its Ethernet source', floor=14)
    rep.rule('R03.4', 'a received Hello stores nothing in the interface record', floor=2)
    accepted = 0
    for region in ('topo.discover', 'quick.discover'):
        for s in sums[region]:
            if s.faults:
                continue
            # accepted unless a mapper is known to be active AND the sender is known to be someone else: a path that drops
            # the Discover before establishing exactly that loses Discovers the property says are answered
            acc = not (s.k_pre.lo >= 1 and s.M is False)
            if not acc:
                continue
            accepted += 1
            st = s.st
            key = region
            hello = [sn for (sn, ctx) in s.sends if sn.byte(17) == C(OP['hello'])]
            ok1 = len(s.sends) == 1 and len(hello) == 1 and not s.sends[0][1]
            rep.check(ok1, 'R03.1', key + '|count', 'an accepted Discover (%s) is answered by %d frame(s): %s' % (
                region, len(s.sends), [short(sn.byte(17)) for sn, _ in s.sends]), function='answerHello',
                file='lltdResponder/lltdBlock.c', sample=s.describe())
            if not hello:
                continue
            sn = hello[0]

            def expect(off, want, what):
                got = st.canon(sn.byte(off))
                if callable(want):
                    ok = want(got)
                    wtxt = what
                else:
                    ok = st.same(got, want)
                    wtxt = short(st.canon(want))
                rep.check(ok, 'R03.2' if off < 32 else 'R03.3', '%s|byte%d' % (key, off),
                          'Hello byte %d (%s) is %s, expected %s' % (off, what, short(got), wtxt),
                          function='answerHello', file='lltdResponder/lltdBlock.c')
            for i in range(6):
                expect(i, C(0xFF), 'Ethernet destination = broadcast')
                expect(6 + i, (lambda g, i=i: own_mac_byte(st, g, i)), 'Ethernet source = own MAC byte %d' % i)
                expect(18 + i, C(0xFF), 'real destination = broadcast')
                expect(24 + i, (lambda g, i=i: own_mac_byte(st, g, i)), 'real source = own MAC byte %d' % i)
            expect(12, C(0x88), 'EtherType high byte')
            expect(13, C(0xD9), 'EtherType low byte')
            expect(14, C(1), 'version')
            expect(15, TOS, 'type of service of the Discover')
            expect(16, ZERO, 'reserved')
            expect(17, C(OP['hello']), 'opcode Hello')
            expect(30, ZERO, 'sequence number high byte')
            expect(31, ZERO, 'sequence number low byte')
            expect(32, ('in', 'frame', 32), 'generation high byte of this Discover')
            expect(33, ('in', 'frame', 33), 'generation low byte of this Discover')
            for i in range(6):
                expect(34 + i, F_REAL_SRC[i], 'current mapper = Discover real source byte %d' % i)
                expect(40 + i, F_ETH_SRC[i], 'apparent mapper = Discover Ethernet source byte %d' % i)
    if accepted < 4:
        rep.broke('only %d accepting Discover paths found' % accepted)
    # Hellos heard change nothing
    for region in ('topo.rest', 'quick.rest'):
        for s in sums[region]:
            if s.op.contains(OP['hello']):
                so = s.so
                s.diag = diagnostic_offsets(fs.prog)
                changed = [k for k, (w, t) in so.cells.items() if not unchanged_cell(s, k, w, t)]
                rep.check(not changed, 'R03.4', region + '|hello-store', 'a received Hello modifies the interface record at offsets %s' % [k[1] for k in changed],
                          function='parseFrame', file='lltdResponder/lltdBlock.c')
    # "in every state reachable by any prefix" starts at the empty prefix: the record a first frame creates must be the
    # all-zero "no mapper, no generation" record the Discover cells were analysed from (mapper_known == 0 admits the sender)
    from .state_record import check_state_for_iface
    rep.rule('R03.5', 'the record created for an interface\'s first frame is entirely zero (no mapper known, no stored generation) and keyed by the context', floor=3)
    check_state_for_iface(rep, fs.prog, 'R03.5')
    rep.analysed.update({'accepting_paths': accepted})
    return finish(rep, 'proof',
                  'Origin analysis of the bytes of the single frame transmitted on every accepting path of the two Discover cells (all states: no mapper / same mapper, '
                  'all generations and addresses symbolic). Byte terms are compared with the required origins; the generation is followed through the per-ToS slot.',
                  'abstract interpretation with byte-lane/origin terms over the Discover cells of the dispatch matrix', exhaustive=True)


def unchanged_cell(s, k, w, t):
    st = s.st
    if k[0]:
        return False
    diag = getattr(s, 'diag', None)
    if diag and all((k[1] + i) in diag for i in range(w)):
        return True          # a diagnostics-only counter (only ever logged): writing it is not behaviour
    from ..terms import mk_byte
    from .frame_common import KNOWN, SEEN_COUNT, ICON_SIZE
    t = st.canon(t)
    if t in (st.canon(KNOWN), st.canon(SEEN_COUNT), st.canon(ICON_SIZE)):
        return True
    if t[0] == 'ptr' and t[1] == 'ext:ctx':
        return True
    for i in range(w):
        b = t if w == 1 else mk_byte(t, i)
        if st.canon(b) != ('in', 'st', k[1] + i):
            return False
    return True
