"""C12 — periodic Hellos are paced, purposeful and stop with the session.

automata_tick (non-testing build, where the send is compiled in) is interpreted
from every RepeatBand state with the session table's count / all-complete
flag, the deadlines, the last-transmit time and the clock symbolic.  Checked:
the send_hello slot has exactly one caller; a send happens only with a
non-empty, not-all-complete table; every send is preceded by the failed
suppression test and followed by recording the transmit time; an empty table
silences the enumerator and resets it."""
import os

from ..common import Report, finish
from ..facts import AnalysisBroken, walk
from .. import facts
from ..engine import Engine, run_entry, mk_obj
from ..absint import Val
from ..port import PortModel
from ..facts import WORD as W
from ..terms import C, ZERO, ONE, INF, short, is_const, lin_of, Lin, Dom
from .. import mem, oracle
from .automata_common import load_core, Automaton, AUTOMATA_UNIT

CNT = ('sym', 'sessions.count', 0, 16)
AC = ('sym', 'sessions.all_complete', 0, 1)
LTX = ('sym', 'last_hello_tx_ms@entry', 0, 1 << 62)
HT = ('sym', 'band.hello_timeout_ts@entry', 0, 1 << 62)
BT = ('sym', 'band.block_timeout_ts@entry', 0, 1 << 62)
NOW = ('sym', 'clock.ms.0', 1, 1 << 63)
MINGAP = oracle.HELLO_MIN_INTERVAL_MS


def run(tier):
    rep = Report('C12', tier)
    prog = load_core('systemd')
    decide(rep, prog)
    # "dropped because the mapping session saw no traffic for 30 s": the tick empties the table when the armed deadline expires,
    # the deadline is armed as clock + 30 s, and no tick before that disarms it (the obligations of C14's tick, decided here too)
    rep.rule('R12.h', 'the 30 s silence of the mapper empties the table: the tick tears the session down on an expired deadline and no earlier tick disarms an armed one', floor=6)
    from .automata_common import Automaton
    from .c07 import RuleView
    from . import c14
    Am = Automaton(prog, 'init_automata_mapping', 'switch_state_mapping')
    roles = c14.mapping_roles(Am)
    if roles is None:
        rep.fail('R12.h', 'mapping|life-cycle', 'the mapping engine has no idle -Discover-> Command -Emit-> Emit life-cycle: the inactivity teardown cannot be examined', function='init_automata_mapping')
    else:
        c14.tick_checks(RuleView(rep, {r: 'R12.h' for r in ('R14.3', 'R14.4', 'R14.5', 'R14.3.ub', 'R14.4.ub')}), prog, Am, roles)
    return finish(rep, 'other',
                  'Decides, on the non-testing build of the core: single caller of the send slot; a send implies a non-empty, not-all-complete table; every send is dominated by the '
                  'failed suppression test against the last transmit time and post-dominated by storing now into it, and nothing else stores it - hence consecutive periodic Hellos are '
                  '>= 1000 ms apart for every interleaving of ticks and clock advances (the clock is monotone and > 0); an empty table silences and resets the enumerator. '
                  'NOT decided: how the Darwin daemon wires the time stamp and the documented frame-processing flow (darwin-main.c does not parse here).',
                  'who-may-call / who-may-write over resolved ASTs + abstract interpretation of automata_tick per RepeatBand state', exhaustive=False,
                  assumptions=['monotonic clock is non-decreasing and > 0 (a send at time 0 would defeat the "last_tx > 0" test)',
                               'the last-transmit variable is written only through the tick port (Darwin wiring not parseable here)'])


def decide(rep, prog):
    """All tick obligations; `rep` may be a RuleView of another property's report (C09: an emptied table returns the
    enumerator to Quiescent at once)."""
    ix = prog.unit(AUTOMATA_UNIT)
    fnf = 'lltdResponder/lltdAutomata.c'
    if 'automata_tick' not in ix.functions:
        raise AnalysisBroken('anchor automata_tick vanished')
    rep.rule('R12.a', 'the send_hello slot is invoked at exactly one site, inside automata_tick; nothing else in the parsed units calls through it', floor=1)
    rep.rule('R12.b', 'a periodic Hello is sent only while the session table is non-empty and not all complete (never from the Quiescent state)', floor=3)
    rep.rule('R12.c', 'pacing: every send is preceded by the failed suppression test (no transmit yet, or >= 1000 ms since) and followed by recording now as last transmit time', floor=2)
    rep.rule('R12.d', 'empty table: no send in any state; an active enumerator returns to Quiescent with both deadlines cleared', floor=3)
    rep.rule('R12.f', 'the gate looks at the table as this tick leaves it: a session expired or cleared by the very same tick no longer justifies a Hello', floor=3)
    rep.rule('R12.e', 'only the tick stores the last-transmit time', floor=1)

    # ---- (a),(e): who may call the slot / write the time stamp (all parsed units of this configuration + extras)
    callers, writers = [], []
    units = [u for u in facts.compile_db() if u.config in ('systemd', 'extra')]
    facts.load_units([u for u in units if u.ast is None])
    seen = set()
    for u in units:
        if u.ast is None or u.path in seen:
            if u.ast is None:
                rep.note('not covered (does not parse here): %s' % u.path)
            continue
        seen.add(u.path)
        uix = facts.UnitIndex(u)
        for fname, fn in uix.functions.items():
            for n in walk(fn):
                if n.get('kind') == 'CallExpr':
                    c = n['inner'][0]
                    while c.get('kind') in ('ImplicitCastExpr', 'ParenExpr'):
                        c = c['inner'][0]
                    if c.get('kind') == 'MemberExpr' and c.get('name') == 'send_hello':
                        if not any(os.path.realpath(str(x[2].get('_file'))) == os.path.realpath(str(n.get('_file'))) and x[2].get('_line') == n.get('_line') for x in callers):
                            callers.append((facts.where(n).split(':')[0], fname, n))
                if n.get('kind') == 'BinaryOperator' and n.get('opcode') == '=':
                    lhs = n['inner'][0]
                    while lhs.get('kind') == 'ParenExpr':
                        lhs = lhs['inner'][0]
                    if lhs.get('kind') == 'UnaryOperator' and lhs.get('opcode') == '*':
                        t = lhs['inner'][0]
                        while t.get('kind') in ('ImplicitCastExpr', 'ParenExpr'):
                            t = t['inner'][0]
                        if t.get('kind') == 'MemberExpr' and t.get('name') == 'last_hello_tx_ms':
                            if not any(os.path.realpath(str(x[2].get('_file'))) == os.path.realpath(str(n.get('_file'))) and x[2].get('_line') == n.get('_line') for x in writers):
                                writers.append((facts.where(n).split(':')[0], fname, n))
    # the tick "module": automata_tick and the static helpers all of whose callers belong to it (a tick split into
    # tick_enumeration / tick_hello_timeout is still the tick)
    # (over all core units: the tick may live in any of them)
    cgraph = {}
    corefns = {}
    for aix in prog.index.values():
        for fname, fn in aix.functions.items():
            if not (fn.get('_file') or '').startswith(os.path.join(facts.REPO, 'lltdResponder') + os.sep):
                continue
            corefns.setdefault(fname, fn)
            for n in walk(fn):
                if n.get('kind') == 'CallExpr' and n.get('inner'):
                    c = n['inner'][0]
                    while c.get('kind') in ('ImplicitCastExpr', 'ParenExpr'):
                        c = c['inner'][0]
                    if c.get('kind') == 'DeclRefExpr':
                        cgraph.setdefault(c.get('referencedDecl', {}).get('name'), set()).add(fname)
    tick_module = {'automata_tick'}
    grew = True
    while grew:
        grew = False
        for fname, fn in corefns.items():
            if fname not in tick_module and fn.get('storageClass') == 'static' and cgraph.get(fname) and cgraph[fname] <= tick_module:
                tick_module.add(fname)
                grew = True
    in_tick = lambda p_, f_: f_ in tick_module and p_.startswith('lltdResponder/')
    rep.check(len(callers) == 1 and in_tick(callers[0][0], callers[0][1]), 'R12.a', 'callers',
              'the send_hello slot is invoked from %s; exactly one call site in automata_tick is expected' % [(p, f) for p, f, _ in callers],
              node=callers[0][2] if callers else None, function=callers[0][1] if callers else 'automata_tick', file=fnf,
              sample={'send_hello_call_sites': [(p, f) for p, f, _ in callers]})
    rep.check(len(writers) >= 1 and all(in_tick(w[0], w[1]) for w in writers), 'R12.e', 'stamp-writers',
              'the last-transmit time is stored by %s; only automata_tick may' % [(p, f) for p, f, _ in writers], function='automata_tick', file=fnf,
              sample={'last_tx_writers': [(p, f) for p, f, _ in writers]})

    # ---- (b),(c),(d): interpret the tick from each enumeration state
    Eu = Automaton(prog, 'init_automata_enumeration', 'switch_state_enumeration')
    trec = ix.parse_type('session_table').rec
    prec_ = ix.parse_type('lltd_automata_tick_port').rec
    brec = ix.parse_type('band_state').rec
    nsend = 0
    for es in range(Eu.states_no):
        for table_null in (False, True):
            # (second run: the table could not be allocated at start-up and the station runs without one - a missing table
            #  counts as an empty one)
            st = Eu.state0.fork()
            st.trace, st.tags = (), {}
            st.tags['clkfloor.ms'] = (LTX,)      # LTX <= every clock reading of this tick
            e = st.objs[Eu.oid]
            e.cells[((), Eu.field_off('current_state'))] = (1, C(es))
            bext = st.canon(mem.load_scalar(st, e, C(Eu.field_off('extra')), ix.parse_type('void *')))
            if bext[0] != 'ptr':
                raise AnalysisBroken('enumeration constructor does not attach a RepeatBand block')
            band = st.objs[bext[1]]
            band.cells.clear()
            band.default = 'sym'
            band.cells[((), brec.field('hello_timeout_ts')[1])] = (8, HT)
            band.cells[((), brec.field('block_timeout_ts')[1])] = (8, BT)
            band.cells[((), brec.field('Ni')[1])] = (4, ('sym', 'band.Ni', oracle.BAND['ALPHA'], oracle.BAND['NMAX']))
            t = mk_obj(st, 'in:sessions', trec.size, kind='heap', default='zero', heap=True)
            t.zeroed_n = t.size          # entries irrelevant here: the gate reads count / all_complete only (expiry: C16)
            t.cells[((), trec.field('count')[1])] = (1, CNT)
            t.cells[((), trec.field('all_complete')[1])] = (1, AC)
            po = mk_obj(st, 'in:tickport', prec_.size, kind='heap', default='sym')
            lt = mk_obj(st, 'in:last_tx', 8, kind='heap', default='sym')
            lt.cells[((), 0)] = (8, LTX)
            mk_obj(st, 'ext:netif', 1, kind='ext', default='unknown')
            po.cells[((), prec_.field('network_interface')[1])] = (W, ('ptr', 'ext:netif', ZERO))
            po.cells[((), prec_.field('last_hello_tx_ms')[1])] = (W, ('ptr', 'in:last_tx', ZERO))
            po.cells[((), prec_.field('send_hello')[1])] = (W, ('fn', 'send_hello'))

            def setup(I, st2):
                ap = ix.parse_type('automata *')
                return [Val(ap, ZERO), Val(ap, Eu.ret.t), Val(ix.parse_type('session_table *'), ZERO if table_null else ('ptr', 'in:sessions', ZERO)),
                        Val(ix.parse_type('const lltd_automata_tick_port *'), ('ptr', 'in:tickport', ZERO))]
            # the session table's validity bits are all zero here, so the expiry sweep changes nothing; count/flag stay symbolic
            def upd(I, s2, args, node, rty):
                return [(s2, Val(rty, ZERO))]
            E = Engine(prog, port=PortModel(), summaries={'session_table_update_complete_status': upd})
            I, outs = run_entry(prog, AUTOMATA_UNIT, 'automata_tick', setup, engine=E, state=st, tracked=(CNT, AC, LTX),
                                name='automata_tick[enumeration=%d]' % es)
            for ob in I.obs.values():
                if not ob.ok:
                    rep.fail('R12.ub', '%s|%s' % (ob.fn, ob.kind), ob.msg, node=ob.node, function=ob.fn)
            for s2, v in outs:
                sends = [x for x in s2.trace if x[0] == 'indirect' and x[1] == 'send_hello']
                dc, da = s2.dom(CNT), s2.dom(AC)
                e2 = s2.objs[Eu.oid]
                cs = s2.dom(mem.load_scalar(s2, e2, C(Eu.field_off('current_state')), ix.parse_type('unsigned char')))
                b2 = s2.objs[bext[1]]
                if table_null:
                    rep.check(not sends, 'R12.d', 'null-table-silent|%d' % es, 'a periodic Hello is sent although there is no session table at all', function='automata_tick', file=fnf)
                    if es != Eu.initial:
                        rep.check(cs.const() == Eu.initial, 'R12.d', 'null-table-reset|%d' % es,
                                  'without a session table (its allocation failed at start-up) the enumerator stays in state %s: a missing table must count as an empty one, '
                                  'or the responder keeps enumerating for ever' % cs, function='automata_tick', file=fnf)
                    continue
                if sends:
                    nsend += 1
                    desc = {'enumeration_state_before': es, 'count': repr(dc), 'all_complete': repr(da), 'sends': len(sends)}
                    rep.check(len(sends) == 1, 'R12.b', 'one-per-tick|%d' % es, 'one tick transmits %d periodic Hellos' % len(sends), function='automata_tick', file=fnf)
                    rep.check(es != Eu.initial, 'R12.b', 'quiescent-sends', 'a periodic Hello is sent from the Quiescent state', function='automata_tick', file=fnf)
                    rep.check(dc.lo >= 1 and da.hi == 0, 'R12.b', 'gate|%d' % es,
                              'a periodic Hello is sent on a path where the session table may be empty (count %s) or all complete (flag %s)' % (dc, da),
                              function='automata_tick', file=fnf, sample=desc)
                    # suppression test failed: last_tx == 0, or now - last_tx >= 1000
                    never = s2.dom(LTX).hi == 0
                    spaced = s2.prove_le(('add', LTX, C(MINGAP)), NOW)
                    rep.check(never or spaced, 'R12.c', 'suppression|%d' % es,
                              'a periodic Hello is sent on a path where neither "nothing transmitted yet" nor "at least %d ms since the last transmit" is established' % MINGAP,
                              function='automata_tick', file=fnf, sample={'last_tx': repr(s2.dom(LTX)), 'spaced': spaced})
                    after = s2.canon(mem.load_scalar(s2, s2.objs['in:last_tx'], ZERO, ix.parse_type('unsigned long long')))
                    rep.check(after == NOW, 'R12.c', 'stamp|%d' % es, 'after sending, the last-transmit time is %s, not the current time' % short(after),
                              function='automata_tick', file=fnf)
                else:
                    after = s2.canon(mem.load_scalar(s2, s2.objs['in:last_tx'], ZERO, ix.parse_type('unsigned long long')))
                    rep.check(after == s2.canon(LTX), 'R12.c', 'stamp-without-send|%d' % es, 'the last-transmit time changes (%s) on a path that sends nothing' % short(after),
                              function='automata_tick', file=fnf)
                if dc.hi == 0:
                    rep.check(not sends, 'R12.d', 'empty-silent|%d' % es, 'a periodic Hello is sent although the session table is empty', function='automata_tick', file=fnf)
                    if es != Eu.initial:
                        h2 = s2.canon(mem.load_scalar(s2, b2, C(brec.field('hello_timeout_ts')[1]), ix.parse_type('unsigned long long')))
                        k2 = s2.canon(mem.load_scalar(s2, b2, C(brec.field('block_timeout_ts')[1]), ix.parse_type('unsigned long long')))
                        rep.check(cs.const() == Eu.initial and h2 == ZERO and k2 == ZERO, 'R12.d', 'empty-reset|%d' % es,
                                  'with an empty table the enumerator stays in state %s with deadlines %s / %s (expected Quiescent, 0, 0)' % (cs, short(h2), short(k2)),
                                  function='automata_tick', file=fnf, sample={'empty_table': 'Quiescent, deadlines cleared'})
    same_tick_scenarios(rep, prog, ix, Eu)
    if nsend == 0:
        rep.fail('R12.b', 'never-sends', 'no path of the tick sends a periodic Hello (send compiled out?)', function='automata_tick', file=fnf)
    rep.analysed.update({'enumeration_states': Eu.states_no, 'sending_paths': nsend, 'enumeration_rows': Eu.rows})
    # the gate reads the table's count and 'all complete' flag: they must tell the truth after every table operation
    # (add / remove / clear / expiry / recomputation) - the table obligations of C16, re-decided under this property
    from .c16 import decide as table_decide
    from .c07 import RuleView
    rep.rule('R12.g', 'the session table the gate reads is truthful: count = number of valid entries, flag = for-all, after add / remove / clear / expiry', floor=60)
    table_decide(RuleView(rep, {r: 'R12.g' for r in ('R16.add', 'R16.remove', 'R16.clear', 'R16.status', 'R16.query', 'R16.expiry')}), prog)


def same_tick_scenarios(rep, prog, ix, Eu):
    """One valid, incomplete session at a fixed slot; RepeatBand Pausing with a Hello due and nothing transmitted yet.
    (fresh)   the session is alive            -> the Hello is sent (the scenario is not vacuous)
    (expired) its 60 s stamp has run out      -> this tick's sweep removes it: no Hello, enumerator back to Quiescent
    (cleared) the 30 s mapping deadline fired -> this tick clears the table: no Hello"""
    from ..facts import WORD as W
    fnf = 'lltdResponder/lltdAutomata.c'
    trec = ix.parse_type('session_table').rec
    erec = ix.parse_type('session_entry').rec
    prec_ = ix.parse_type('lltd_automata_tick_port').rec
    brec = ix.parse_type('band_state').rec
    mrec = ix.parse_type('mapping_state').rec
    M = Automaton(prog, 'init_automata_mapping', 'switch_state_mapping')
    LA = ('sym', 'entry.last_activity', 1, 1 << 61)
    CLK = ('sym', 'clock.s.0', 0, 1 << 63)
    for scen in ('fresh', 'expired', 'cleared'):
        for j in (0, 15):
            st = Eu.state0.fork()
            for oid, o in M.state0.objs.items():
                if oid not in st.objs:
                    st.objs[oid] = o.copy()
            st.trace, st.tags = (), {}
            e = st.objs[Eu.oid]
            e.cells[((), Eu.field_off('current_state'))] = (1, C(1))
            bext = st.canon(mem.load_scalar(st, e, C(Eu.field_off('extra')), ix.parse_type('void *')))
            band = st.objs[bext[1]]
            band.cells.clear()
            band.default = 'sym'
            band.cells[((), brec.field('hello_timeout_ts')[1])] = (8, C(1))        # due: 0 < deadline <= now
            band.cells[((), brec.field('block_timeout_ts')[1])] = (8, ZERO)
            band.cells[((), brec.field('Ni')[1])] = (4, C(oracle.BAND['ALPHA']))
            t = mk_obj(st, 'in:sessions', trec.size, kind='heap', default='zero', heap=True)
            t.zeroed_n = t.size
            t.cells[((), trec.field('count')[1])] = (1, C(1))
            t.cells[((), trec.field('all_complete')[1])] = (1, ZERO)
            b = trec.field('entries')[1] + j * erec.size
            t.cells[((), b + erec.field('valid')[1])] = (1, C(1))
            t.cells[((), b + erec.field('complete')[1])] = (1, ZERO)
            t.cells[((), b + erec.field('last_activity_ts')[1])] = (8, LA)
            lim = lin_of(('add', LA, C(oracle.SESSION_EXPIRY_S)))
            if scen == 'expired':
                f = lim.add(lin_of(CLK), -1)
                f.k += 1
            else:
                f = lin_of(CLK).add(lim, -1)
            st.add_fact(f)
            st.add_fact(lin_of(C(1)).add(lin_of(CLK), -1))          # the (armed, = 1) inactivity deadline is due: 1 <= now
            po = mk_obj(st, 'in:tickport', prec_.size, kind='heap', default='sym')
            lt = mk_obj(st, 'in:last_tx', 8, kind='heap', default='sym')
            lt.cells[((), 0)] = (8, ZERO)
            mk_obj(st, 'ext:netif', 1, kind='ext', default='unknown')
            po.cells[((), prec_.field('network_interface')[1])] = (W, ('ptr', 'ext:netif', ZERO))
            po.cells[((), prec_.field('last_hello_tx_ms')[1])] = (W, ('ptr', 'in:last_tx', ZERO))
            po.cells[((), prec_.field('send_hello')[1])] = (W, ('fn', 'send_hello'))
            # mapping automaton: Command state; inactivity deadline fired only in the 'cleared' scenario
            a = st.objs[M.oid]
            a.cells[((), M.field_off('current_state'))] = (1, C(1))
            a.cells[((), M.field_off('last_ts'))] = (8, CLK)
            mext = st.canon(mem.load_scalar(st, a, C(M.field_off('extra')), ix.parse_type('void *')))
            ms = st.objs[mext[1]]
            ms.cells.clear()
            if scen == 'cleared':
                # whatever else is pending in the mapping block (a Charge count, an armed or due charge timer): the due
                # inactivity deadline must end the session in this very tick
                ms.default = 'sym'
            else:
                ms.default = 'zero'
                ms.zeroed_n = ms.size
            ms.cells[((), mrec.field('inactive_timeout_ts')[1])] = (8, C(1) if scen == 'cleared' else ZERO)

            def setup(I, st2):
                ap = ix.parse_type('automata *')
                return [Val(ap, M.ret.t), Val(ap, Eu.ret.t), Val(ix.parse_type('session_table *'), ('ptr', 'in:sessions', ZERO)),
                        Val(ix.parse_type('const lltd_automata_tick_port *'), ('ptr', 'in:tickport', ZERO))]
            I, outs = run_entry(prog, AUTOMATA_UNIT, 'automata_tick', setup, port=PortModel(), state=st, name='automata_tick[%s slot %d]' % (scen, j))
            for ob in I.obs.values():
                if not ob.ok:
                    rep.fail('R12.ub', '%s|%s' % (ob.fn, ob.kind), ob.msg, node=ob.node, function=ob.fn)
            for s2, v in outs:
                sent = [x for x in s2.trace if x[0] == 'indirect' and x[1] == 'send_hello']
                cnt = s2.canon(mem.load_scalar(s2, s2.objs['in:sessions'], C(trec.field('count')[1]), ix.parse_type('unsigned char')))
                if scen == 'fresh':
                    rep.check(len(sent) == 1, 'R12.f', 'fresh|sends', 'with a live incomplete session and a Hello due, the tick sends %d Hellos' % len(sent), function='automata_tick', file=fnf,
                              sample={'scenario': scen, 'slot': j, 'sent': len(sent)})
                else:
                    why = 'idle for more than 60 s and removed by this tick\'s sweep' if scen == 'expired' else 'dropped by this tick\'s 30 s mapping-inactivity handling'
                    rep.check(not sent and cnt == ZERO, 'R12.f', '%s|silent' % scen,
                              'the only session is %s (count afterwards %s), yet the same tick still sends %d periodic Hello(s): the gate used the table status from before that step'
                              % (why, short(cnt), len(sent)), function='automata_tick', file=fnf, sample={'scenario': scen, 'slot': j, 'sent': len(sent)})
