"""Shared machinery for the table-driven automata (C12, C14, C15)."""
import sys

from .. import facts
from ..facts import AnalysisBroken
from ..engine import Engine, run_entry, new_state, mk_obj
from ..absint import Val
from ..port import PortModel
from ..terms import C, ZERO, INF, short, is_const, Dom

sys.setrecursionlimit(20000)

AUTOMATA_UNIT = 'lltdResponder/lltdAutomata.c'


def load_core(config='systemd', extra=()):
    import os
    # the thorough tier re-runs the checks on the other Linux build configuration of the same core sources
    if config == 'systemd' and os.environ.get('LLTD_CONFIG'):
        config = os.environ['LLTD_CONFIG']
    units = [u for u in facts.compile_db() if u.config == config and (u.path in facts.CORE_UNITS or u.path in extra)]
    facts.load_units(units)
    bad = [u for u in units if u.ast is None]
    if bad:
        raise AnalysisBroken('units do not parse: %s' % [(u.path, u.error) for u in bad])
    return facts.Program(units)


class Automaton(object):
    """An automaton object as built by its constructor (interpreted, never run)."""

    def __init__(self, prog, ctor, switch):
        self.prog = prog
        self.ix = prog.unit(AUTOMATA_UNIT)
        self.ctor, self.switch = ctor, switch
        for f in (ctor, switch):
            if f not in self.ix.functions:
                raise AnalysisBroken('anchor function %s vanished from %s' % (f, AUTOMATA_UNIT))
        self.rec = self.ix.parse_type('automata').rec
        if self.rec.size is None:
            raise AnalysisBroken('no layout for automata')
        I, outs = run_entry(prog, AUTOMATA_UNIT, ctor, lambda I, st: [], port=PortModel(alloc_may_fail=False, clock_name='ctor.clock'),
                            name=ctor)
        self.ctor_engine = I
        if not outs:
            raise AnalysisBroken('%s: no success path' % ctor)
        self.state0, self.ret = outs[0]
        self.alt = outs[1:]        # further success paths (e.g. a clock wrapper that branches): must build the same tables
        t = self.state0.canon(self.ret.t)
        if t[0] != 'ptr':
            raise AnalysisBroken('%s does not return a pointer to a fresh object' % ctor)
        self.oid = t[1]
        self.states_no = self.const_field('states_no')
        self.transitions_no = self.const_field('transitions_no')
        self.initial = self.const_field('current_state')
        srec = self.ix.parse_type('state').rec
        trec = self.ix.parse_type('transition').rec
        self.soff = self.rec.field('states_table')[1]
        self.toff = self.rec.field('transitions_table')[1]
        self.ssize, self.tsize = srec.size, trec.size
        self.timeouts = []
        for i in range(self.states_no):
            self.timeouts.append(self.const_at(self.soff + i * self.ssize + srec.field('timeout')[1], 2, True))
        self.rows = []
        for i in range(self.transitions_no):
            b = self.toff + i * self.tsize
            self.rows.append((self.const_at(b + trec.field('from')[1], 1), self.const_at(b + trec.field('to')[1], 1),
                              self.const_at(b + trec.field('with')[1], 1, True)))
        if self.alt:
            sig = (self.states_no, self.transitions_no, self.initial, tuple(self.timeouts), tuple(self.rows))
            keep0, keepr = self.state0, self.ret
            for st_, ret_ in self.alt:
                t_ = st_.canon(ret_.t)
                if t_ != t:
                    raise AnalysisBroken('%s: success paths return different objects' % ctor)
                self.state0, self.ret = st_, ret_
                srec_, trec_ = srec, trec
                other = (self.const_field('states_no'), self.const_field('transitions_no'), self.const_field('current_state'),
                         tuple(self.const_at(self.soff + i * self.ssize + srec_.field('timeout')[1], 2, True) for i in range(self.states_no)),
                         tuple((self.const_at(self.toff + i * self.tsize + trec_.field('from')[1], 1), self.const_at(self.toff + i * self.tsize + trec_.field('to')[1], 1),
                                self.const_at(self.toff + i * self.tsize + trec_.field('with')[1], 1, True)) for i in range(self.transitions_no)))
                if other != sig:
                    raise AnalysisBroken('%s builds different tables on different success paths' % ctor)
            self.state0, self.ret = keep0, keepr

    def const_at(self, off, n, signed=False):
        o = self.state0.objs[self.oid]
        from .. import mem
        ty = self.ix.parse_type({(1, False): 'unsigned char', (1, True): 'signed char', (2, True): 'short',
                                 (2, False): 'unsigned short'}[(n, signed)])
        t = self.state0.canon(mem.load_scalar(self.state0, o, C(off), ty))
        if not is_const(t):
            from ..terms import UNINIT
            from ..facts import Defect
            raw = mem.load_scalar(self.state0, o, C(off), ty)
            if raw == UNINIT or (raw[0] == 'cat' and UNINIT in raw[1]) or 'uninit' in short(t):
                raise Defect('ctor|%s|uninit|%d' % (self.ctor, off), '%s leaves %d byte(s) at offset %d of the automaton it returns uninitialised (a state timeout / table '
                             'field keeps whatever the allocator returned): every later step reads it' % (self.ctor, n, off), function=self.ctor)
            if 'g:' in short(t):
                raise Defect('ctor|%s|static|%d' % (self.ctor, off), '%s fills the automaton it returns (offset %d) from mutable static storage (%s): what a new automaton starts with '
                             'then depends on earlier calls - a cached table, state or time stamp of another automaton' % (self.ctor, off, short(t)), function=self.ctor)
            raise AnalysisBroken('%s: table cell at offset %d is not a constant (%s)' % (self.ctor, off, short(t)))
        return t[1]

    def const_field(self, name):
        f = self.rec.field(name)
        if f is None:
            raise AnalysisBroken('field automata.%s vanished' % name)
        return self.const_at(f[1], 1)

    def field_off(self, name):
        return self.rec.field(name)[1]

    def may_lack_extra(self):
        """Can the constructor hand out an automaton whose `extra` block is missing (an allocation failed but the
        automaton itself is returned)?"""
        I, outs = run_entry(self.prog, AUTOMATA_UNIT, self.ctor, lambda I, st: [], port=PortModel(alloc_may_fail=True), name=self.ctor + '[faults]')
        eo = self.field_off('extra')
        for st, ret in outs:
            t = st.canon(ret.t)
            if t[0] == 'ptr' and t[1] in st.objs:
                c = st.objs[t[1]].cells.get(((), eo))
                if c is not None and st.canon(c[1]) == ZERO:
                    return True
        return False

    def step_relation(self, s, input_dom=None, extra_null=False):
        """Interpret the switch function from state s with an arbitrary input and arbitrary elapsed time.
        -> (engine, [(final_state, new_state_value, input_dom, timeout_class)])"""
        st = self.state0.fork()
        st.trace = ()
        st.tags = {}
        a = st.objs[self.oid]
        a.cells[((), self.field_off('current_state'))] = (1, C(s))
        lt = ('sym', 'last_ts@entry', 0, 1 << 62)
        a.cells[((), self.field_off('last_ts'))] = (8, lt)
        st.tags['clkfloor.s'] = (lt,)
        if extra_null:
            from ..facts import WORD
            a.cells[((), self.field_off('extra'))] = (WORD, ZERO)
        else:
            # the step is a function of (state, time stamp, input, clock): whatever the auxiliary block holds (charge counter,
            # armed inactivity deadline, RepeatBand statistics) is arbitrary here, so a step that consults it shows
            from .. import mem as _mem0
            ex_ = st.canon(_mem0.load_scalar(st, a, C(self.field_off('extra')), self.ix.parse_type('void *')))
            if ex_[0] == 'ptr' and ex_[1] in st.objs and ex_[1] != self.oid:
                xo = st.objs[ex_[1]]
                xo.cells.clear()
                xo.default = 'sym'
                xo.zeroed_n = None
        inp = ('sym', 'input', -(1 << 31), (1 << 31) - 1)
        ix = self.ix
        ret = self.ret

        def setup(I, st):
            return [Val(ix.parse_type('automata *'), ret.t), Val(ix.parse_type('int'), inp),
                    Val(ix.parse_type('char *'), ('ptr', 'ext:debug', ZERO))]
        st.new_obj('ext:debug', 'ext', 1, default='unknown')
        me = self

        def nested(I, s2, args, node, rty):
            # the switch function calls itself to re-evaluate an event after a state timeout.  The depth of that recursion
            # is bounded only because the automaton's time stamp is refreshed from the clock before the nested call (the
            # nested call then sees only the time that passes meanwhile): a stamp that is merely advanced by the timeout,
            # or left alone, makes the depth grow with the idle time and the stack overflow after a long silence
            from .. import mem as _mem
            a2 = s2.objs.get(me.oid)
            t = s2.canon(_mem.load_scalar(s2, a2, C(me.field_off('last_ts')), ix.parse_type('unsigned long long'))) if a2 is not None else None
            n = s2.tags.get('clk.s', 0)
            ok = t is not None and n > 0 and any(s2.same(t, ('sym', 'clock.s.%d' % i, 0, 1 << 63)) for i in range(n))
            I.oblige(ok, 'recursion-progress', node,
                     '%s calls itself with the automaton\'s time stamp %s, which is not a clock reading of this call: the re-evaluation after a timeout '
                     'recurses once per elapsed timeout period (unbounded stack depth after a long silence)' % (me.switch, short(t) if t is not None else '?'))
            ixx, f2 = I.prog.resolve(I.ix, me.switch)
            return I.inline(s2, ixx, f2, args, node, rty)
        I, outs = run_entry(self.prog, AUTOMATA_UNIT, self.switch, setup, port=PortModel(alloc_may_fail=False),
                            state=st, name='%s[state=%d]' % (self.switch, s), summaries={self.switch: nested}, tracked=(inp,))
        T = self.timeouts[s]
        elapsed = ('sub', ('sym', 'clock.s.0', 0, 1 << 63), lt)
        res = []
        for s2, v in outs:
            a2 = s2.objs[self.oid]
            cs = s2.canon(a2.cells[((), self.field_off('current_state'))][1])
            d = s2.dom(cs)
            if d.const() is None:
                bad = [ob for ob in I.obs.values() if not ob.ok]
                if bad:
                    # the state came out of memory the function must not read (a row past the table, an uninitialised cell)
                    from ..facts import Defect
                    raise Defect('switch|%s|%s|%s' % (self.switch, bad[0].kind, bad[0].sym or ''),
                                 '%s: the resulting state is read from memory the function may not rely on (%s): the next state is not determined by state, event and time'
                                 % (self.switch, bad[0].msg), function=self.switch, file='lltdResponder/lltdAutomata.c')
                raise AnalysisBroken('%s: resulting state is not a single value on a path (%s)' % (self.switch, d))
            if T == 0:
                cls = 'none'
            elif s2.prove_lt(C(T), elapsed):
                cls = 'expired'
            elif s2.prove_le(elapsed, C(T)):
                cls = 'fresh'
            else:
                cls = 'unclassified'
            lts = s2.canon(a2.cells[((), self.field_off('last_ts'))][1])
            res.append((s2, d.const(), s2.dom(inp), cls, lts))
        return I, res


def collect_failures(rep, I, rule, prop_kinds=None):
    """Turn failed engine obligations into findings of `rule`."""
    from ..facts import where, REPO
    for ob in I.obs.values():
        if ob.ok:
            continue
        if prop_kinds is not None and ob.kind not in prop_kinds:
            continue
        rep.fail(rule, '%s|%s|%s' % (ob.fn, ob.kind, ob.sym or ''), ob.msg, node=ob.node, function=ob.fn)


def automaton_writers(rep, prog, rule):
    """Who may write into an automaton object (its current state, time stamp, tables, extra pointer): only the constructors,
    the three switch functions, the periodic tick and static helpers all of whose callers are among those.  The transition relations decided
    for the switch functions describe the engines only if nothing else moves their state or edits their tables.
    A write is an assignment / ++ / -- whose target goes through a member of `struct automata` (also an element of its
    state or transition table, also the object as a whole through an `automata *`)."""
    import os
    from ..facts import walk, REPO
    core = os.path.join(REPO, 'lltdResponder') + os.sep
    fns, callers = {}, {}
    for ix in prog.index.values():
        for fname, fn in ix.functions.items():
            if not (fn.get('_file') or '').startswith(core):
                continue
            fns.setdefault(fname, (ix, fn))
            for n in walk(fn):
                if n.get('kind') == 'CallExpr' and n.get('inner'):
                    c = n['inner'][0]
                    while c.get('kind') in ('ImplicitCastExpr', 'ParenExpr'):
                        c = c['inner'][0]
                    if c.get('kind') == 'DeclRefExpr':
                        callers.setdefault(c.get('referencedDecl', {}).get('name'), set()).add(fname)
    module = set(f for f in fns if f.startswith('init_automata_') or f.startswith('switch_state_'))
    if len(module) < 6:
        raise AnalysisBroken('constructors / switch functions of the automata not found (%s)' % sorted(module))
    # ... and the periodic tick, which resets the RepeatBand enumerator directly when the session table is empty (that it
    # leaves the *mapping* engine alone unless the 30 s deadline expired is decided on the interpreted tick, R14.5; the
    # session automaton is not handed to it)
    if 'automata_tick' in fns:
        module.add('automata_tick')
    grew = True
    while grew:
        grew = False
        for fname, (ix, fn) in fns.items():
            if fname not in module and fn.get('storageClass') == 'static' and callers.get(fname) and callers[fname] <= module:
                module.add(fname)
                grew = True

    def strip(e):
        while e.get('kind') in ('ParenExpr', 'ImplicitCastExpr', 'CStyleCastExpr') and e.get('inner'):
            e = e['inner'][-1]
        return e

    def through_automaton(ix, e):
        e = strip(e)
        k = e.get('kind')
        if k == 'MemberExpr':
            rp = ix.field_parent.get(e.get('referencedMemberDecl'))
            if rp and rp[0].name.replace('struct ', '') == 'automata':
                return True
            return through_automaton(ix, e['inner'][0])
        if k == 'ArraySubscriptExpr':
            return through_automaton(ix, e['inner'][0])
        if k == 'UnaryOperator' and e.get('opcode') == '*':
            t = ' '.join(((strip(e['inner'][0]).get('type') or {}).get('qualType', '')).replace('struct ', '').split())
            return t in ('automata *', 'automata *const') or through_automaton(ix, e['inner'][0])
        return False
    nw = 0
    for fname, (ix, fn) in sorted(fns.items()):
        for n in walk(fn):
            lhs = None
            if n.get('kind') in ('BinaryOperator', 'CompoundAssignOperator') and n.get('opcode', '').endswith('=') and n.get('opcode') not in ('==', '!=', '<=', '>='):
                lhs = n['inner'][0]
            elif n.get('kind') == 'UnaryOperator' and n.get('opcode') in ('++', '--'):
                lhs = n['inner'][0]
            if lhs is None or not through_automaton(ix, lhs):
                continue
            nw += 1
            rep.check(fname in module, rule, 'writer|%s' % fname,
                      'function %s writes into an automaton object (state, time stamp or tables) outside the constructors and switch functions: '
                      'the engine no longer moves only along its transition table' % fname, node=n, function=fname)
    if nw < 6:
        rep.broke('only %d writes into automaton objects found' % nw)
    return nw
