"""C02 — only well-formed, solicited, bounded, deterministic frames leave the responder.

Every `send_frame` effect reachable in any of the 65 536 (ToS, opcode) cells is
examined: which cell it is in (solicited only, count), the base header bytes,
the structure the opcode prescribes (Hello TLV chain parsed symbolically),
that every byte below the length is determined (zero fill or explicit store),
and that the length fits the buffer sized from the MTU."""
from ..common import Report, finish
from ..terms import C, ZERO, short, is_const, lin_of, Lin, INF
from .. import oracle
from .dispatch import analyse, OP, OPNAME, fail_obligations
from .c03 import own_mac_byte
from .frame_common import TOS, OPC

REQUESTS = {OP['discover']: {OP['hello']}, OP['emit']: {OP['probe'], OP['train'], OP['ack']},
            OP['query']: {OP['queryResp']}, OP['queryLargeTlv']: {OP['queryLargeTlvResp']}}
MAY_SEND = set(OP[n] for n in oracle.RESPONDER_MAY_SEND)
BASE = 32


def run(tier):
    rep = Report('C02', tier)
    modes = [True] if tier == 'quick' else [True, False]
    rep.rule('R02.1', 'frames are transmitted only in the cells (ToS 0/1) x {Discover, Emit, Query, QueryLargeTlv}, with the opcode that request prescribes', floor=8)
    rep.rule('R02.2', 'at most one frame per request (Emit: at most one Probe/Train per descriptor iteration plus one ACK)', floor=8)
    rep.rule('R02.3', 'base header: EtherType 88D9, version 1, reserved 0, responder opcode, real source = own MAC', floor=40)
    rep.rule('R02.4', 'length and inner structure per opcode (Hello TLV chain: host id first, legal lengths, no duplicate, end marker last)', floor=8)
    rep.rule('R02.5', 'every transmitted byte is determined: zero-filled buffer or explicit store of initialised data', floor=8)
    rep.rule('R02.6', 'frame length <= size of the buffer allocated from the MTU (and Hello <= 576)', floor=8)
    nsend = 0
    for mtu_ok in modes:
        fs, sums, obs, stats = analyse(mtu_ok=mtu_ok)
        if not mtu_ok:
            # with the constant 1500-byte fallback the report loop of the Query cell would be unrolled concretely; its
            # length-vs-count rule reads the reason for leaving the loop off the inductive summary (as in the port-MTU mode)
            _fs, sq, _ob, _st = analyse(mtu_ok=False, regions=['topo.query'], force_summary=True)
            sums['topo.query'] = sq['topo.query']
        tag = '' if mtu_ok else '|mtu-fallback'
        for region, lst in sums.items():
            for s in lst:
                nsend += check_state(rep, s, tag)
        fail_obligations(rep, obs, 'R02.5', kinds=('uninit-read', 'uninit-copy'))
        # a read or copy source outside its object puts bytes into play that no frame and no configuration determines
        fail_obligations(rep, [o for o in obs if (o['msg'] or '').startswith(('memcpy source', 'read of')) or '] memcpy source' in (o['msg'] or '') or '] read of' in (o['msg'] or '')],
                         'R02.5', kinds=('bounds',))
        fail_obligations(rep, [o for o in obs if 'send_frame' in (o['msg'] or '') or o['fn'] in ('setLltdHeader', 'setLltdHeaderEx', 'setHelloHeader')],
                         'R02.6', kinds=('bounds',))
    rep.analysed.update({'send_effects_examined': nsend, 'modes': ['mtu from port' if m else 'mtu fallback 1500' for m in modes]})
    # the QueryResp's count field is read from the recorded count, its descriptors from the list: "length = 34 + 20 x count"
    # holds for every history only if count = list length is maintained - the bookkeeping obligations of C07 (linking adds
    # exactly one, reporting subtracts what it releases, nothing else touches list or count, no link of a listed node is
    # rewritten), re-decided under this property
    # the icon bytes a QueryLargeTlvResp carries are read through the record's cache pointer: they are determined only while that
    # pointer is NULL or a live block the record owns (not another interface's block that its Reset may free)
    from .frame_common import FrameSetup as _FS, run_regions as _rr, icon_invariant as _ii
    from .automata_common import load_core as _lc
    rep.rule('R02.8', 'the cached icon the large-TLV responses are copied from is NULL or a live heap block owned by this interface\'s record after every cell', floor=9)
    rep.rule('R02.9', 'the interface-record lookup: hit only on an equal context, fresh record all-zero, existing records untouched, and nothing but the lookup walks the list of records', floor=3)
    from .state_record import check_state_for_iface as _csi
    _csi(rep, _lc('systemd'), 'R02.9')
    _fs8 = _FS(_lc('systemd'), mtu_ok=True)
    _res8, _o8, _s8 = _rr(_fs8)
    _ii(rep, 'R02.8', _fs8, _res8)
    from .c07 import decide as list_decide, RuleView
    from .automata_common import load_core
    rep.rule('R02.7', 'the observation count the QueryResp announces is the length of the list it serialises (bookkeeping obligations R07.f/g/j)', floor=40)
    # ... and what a descriptor carries (type, real source, Ethernet source, Ethernet destination of the observed frame, in
    # wire order) is part of the QueryResp's inner structure: the frame -> node -> wire mapping (R07.c)
    list_decide(RuleView(rep, {r: 'R02.7' for r in ('R07.f', 'R07.g', 'R07.j', 'R07.c')}), load_core('systemd'))
    return finish(rep, 'proof',
                  'All send_frame effects of the complete dispatch matrix (ToS and opcode as full byte sets; every path incl. fault paths) are examined: cell, count, '
                  'header byte origins, per-opcode structure (Hello TLV chain parsed over symbolic offsets), initialisation of every byte below the length, length bound.',
                  'abstract interpretation (effect trace + buffer snapshots with byte origins) over the dispatch matrix; structural parse of transmitted buffers',
                  exhaustive=True)


def check_state(rep, s, tag):
    st = s.st
    if not s.sends:
        rep.ok('R02.1')
        return 0
    tv, ov = s.tos.values(), s.op.values()
    cell = s.cell()
    fnf = 'lltdResponder/lltdBlock.c'
    solicited = all(t in (0, 1) for t in tv) and len(ov) == 1 and ov[0] in REQUESTS
    if not solicited:
        rep.fail('R02.1', 'unsolicited|tos%s|op%s' % (s.tos, s.op),
                 'a frame is transmitted in reaction to ToS %s opcode %s, which is not a Discover/Emit/Query/QueryLargeTlv of the discovery services' % (s.tos, s.op),
                 function=s.sends[0][0].d['fn'], file=fnf)
        return len(s.sends)
    req = ov[0]
    top = [x for x in s.sends if not x[1]]
    inloop = [x for x in s.sends if x[1]]
    if req == OP['emit']:
        # frames outside the descriptor loop: none - or the last descriptor taken out of the loop (a peeled final iteration):
        # at most one Probe/Train followed by at most one ACK, after the loop; then no iteration inside the loop sends an ACK
        tops = [st.canon(x[0].byte(17)) for x in top]
        pt = (C(OP['probe']), C(OP['train']))
        tail_ok = len(top) <= 2 and all(is_const(o) for o in tops) and \
            (tops in ([], [C(OP['ack'])]) or (tops[0] in pt and (len(tops) == 1 or tops[1] == C(OP['ack']))))
        rep.check(tail_ok, 'R02.2', 'emit|top-level' + tag, 'Emit handling transmits %d frame(s) outside the per-descriptor loop that are not one final descriptor (Probe/Train, then ACK): %s'
                  % (len(top), [short(o) for o in tops]), function='parseEmit', file=fnf)
        # per iteration trace: count sends in each iteration variant
        from .frame_common import effects
        for e in st.trace:
            if e[0] == 'loop':
                for it in e[2]:
                    n = sum(1 for x in it if x[0] == 'send')
                    rep.check(n <= (1 if top else 2), 'R02.2', 'emit|per-iteration' + tag, 'one Emit descriptor makes the responder transmit %d frames%s'
                              % (n, ' although the final descriptor and its ACK are sent after the loop' if top else ''), function='sendProbeMsg', file=fnf)
    else:
        rep.check(len(s.sends) <= 1 and not inloop, 'R02.2', '%s|count%s' % (OPNAME[req], tag),
                  'a single %s (ToS %s) is answered by %d frames%s' % (OPNAME[req], s.tos, len(s.sends), ' (inside a loop)' if inloop else ''),
                  function=s.sends[0][0].d['fn'], file=fnf)
    for sn, ctx in s.sends:
        fn = sn.d['fn']
        opb = st.canon(sn.byte(17))
        okop = is_const(opb) and opb[1] in REQUESTS[req] and opb[1] in MAY_SEND
        rep.check(okop, 'R02.1', '%s|opcode%s' % (OPNAME[req], tag),
                  'a %s is answered with opcode %s' % (OPNAME[req], short(opb)), function=fn, file=fnf,
                  sample={'cell': cell, 'sent_opcode': short(opb), 'by': fn} if len(rep.samples) < 12 else None)
        # base header
        hdr = [(12, C(0x88), 'EtherType high'), (13, C(0xD9), 'EtherType low'), (14, C(1), 'version'), (16, ZERO, 'reserved')]
        for off, want, what in hdr:
            got = st.canon(sn.byte(off))
            rep.check(got == want, 'R02.3', '%s|byte%d%s' % (fn, off, tag), '%s: header byte %d (%s) is %s, expected %s' % (fn, off, what, short(got), short(want)), function=fn, file=fnf)
        for i in range(6):
            got = st.canon(sn.byte(24 + i))
            rep.check(own_mac_byte(st, got, i), 'R02.3', '%s|realsrc%s' % (fn, tag), '%s: real source byte %d is %s, not the interface\'s own address' % (fn, i, short(got)), function=fn, file=fnf)
        # initialisation
        ok, why = sn.initialised_upto(sn.length)
        rep.check(ok, 'R02.5', '%s|init%s' % (fn, tag), '%s transmits undetermined bytes: %s' % (fn, why), function=fn, file=fnf)
        # length vs buffer
        okl = st.prove_le(sn.length, sn.d['size'])
        rep.check(okl, 'R02.6', '%s|len%s' % (fn, tag), '%s: frame length %s not proven <= buffer size %s' % (fn, short(sn.length), short(sn.d['size'])), function=fn, file=fnf)
        # ... and vs the interface MTU itself (a buffer sized more generously than the MTU proves nothing about the wire)
        from ..port import PortModel as _PM
        mtu_t = C(1500) if tag else _PM.MTU
        okm = st.prove_le(sn.length, mtu_t)
        rep.check(okm, 'R02.6', '%s|len-vs-mtu%s' % (fn, tag), '%s: frame length %s not proven <= the interface MTU %s' % (fn, short(sn.length), short(mtu_t)), function=fn, file=fnf)
        # structure
        if is_const(opb):
            structure(rep, s, sn, opb[1], fn, tag)
    return len(s.sends)


def structure(rep, s, sn, op, fn, tag):
    st = s.st
    fnf = 'lltdResponder/lltdBlock.c'
    L = sn.length
    if op in (OP['probe'], OP['train'], OP['ack']):
        rep.check(st.canon(L) == C(BASE), 'R02.4', '%s|fixed-length%s' % (OPNAME[op], tag),
                  '%s frame is sent with length %s; the opcode prescribes the bare %d-byte base header' % (OPNAME[op], short(L), BASE), function=fn, file=fnf)
        return
    if op == OP['queryLargeTlvResp']:
        # length = 34 + payload, length field (15 bits) = payload
        fld = sn.u16be(32)
        pay = st.canon(('and', fld, C(0x7FFF))) if False else None
        lo = st.canon(sn.byte(33))
        hi = st.canon(sn.byte(32))
        rep.check(st.prove_le(C(BASE + 2), L), 'R02.4', 'qltresp|min-length' + tag, 'QueryLargeTlvResp shorter than its header (%s)' % short(L), function=fn, file=fnf)
        return
    if op == OP['queryResp']:
        rep.check(st.prove_le(C(BASE + 2), L), 'R02.4', 'queryresp|min-length' + tag, 'QueryResp shorter than its header (%s)' % short(L), function=fn, file=fnf)
        # (length - 34) is a multiple of the 20-byte descriptor: length = 34 + 20*k
        l = lin_of(st.canon(L))
        ok20 = (l.k - (BASE + 2)) % 20 == 0 and all(c % 20 == 0 for c in l.co.values())
        rep.check(ok20, 'R02.4', 'queryresp|descriptor-multiple' + tag, 'QueryResp length %s is not 34 + 20*n' % short(L), function=fn, file=fnf)
        from .frame_common import queryresp_length_ok
        okl, announced, _ = queryresp_length_ok(s.fs, st, sn)
        rep.check(okl, 'R02.4', 'queryresp|length-vs-count' + tag,
                  'QueryResp announces %s descriptors but its length is %s: the frame does not carry the descriptors its count field prescribes'
                  % (short(announced) if announced is not None else 'an unexamined number of', short(st.canon(L))), function=fn, file=fnf)
        return
    if op == OP['hello']:
        hello_chain(rep, s, sn, fn, tag)


def hello_chain(rep, s, sn, fn, tag):
    st = s.st
    fnf = 'lltdResponder/lltdBlock.c'
    pos = Lin({}, BASE + 14)        # base header + hello upper header
    seen = []
    steps = 0
    end_ok = False
    while steps < 40:
        steps += 1
        t = sn.byte_at(pos)
        if t is None:
            rep.fail('R02.4', 'hello|chain-gap' + tag, 'Hello property list: no property starts at offset %r (the running offset and the writers disagree)' % pos,
                     function=fn, file=fnf)
            return
        t = st.canon(t)
        if not is_const(t):
            rep.fail('R02.4', 'hello|type-not-constant' + tag, 'Hello property type at offset %r is %s' % (pos, short(t)), function=fn, file=fnf)
            return
        ty = t[1]
        if ty == 0:
            # end marker must be the last byte of the frame
            endlen = pos.add(Lin({}, 1))
            diff = lin_of(st.canon(sn.length)).add(endlen, -1)
            end_ok = diff.is_const() and diff.k == 0
            rep.check(end_ok, 'R02.4', 'hello|end-marker-last' + tag,
                      'Hello: end-of-properties marker at offset %r but the frame length is %s' % (pos, short(sn.length)), function=fn, file=fnf)
            break
        if not seen:
            rep.check(ty == 0x01, 'R02.4', 'hello|host-id-first' + tag, 'Hello: first property has type 0x%02x, host identifier (0x01) must come first' % ty, function=fn, file=fnf)
        rep.check(ty not in seen, 'R02.4', 'hello|duplicate-0x%02x%s' % (ty, tag), 'Hello: property type 0x%02x appears twice' % ty, function=fn, file=fnf)
        seen.append(ty)
        lb = sn.byte_at(pos.add(Lin({}, 1)))
        if lb is None:
            rep.fail('R02.4', 'hello|length-missing' + tag, 'Hello: property 0x%02x has no length byte' % ty, function=fn, file=fnf)
            return
        lb = st.canon(lb)
        d = st.dom(lb)
        lim = oracle.TLV_LEN.get(ty)
        if lim is None:
            rep.fail('R02.4', 'hello|unknown-type-0x%02x%s' % (ty, tag), 'Hello: property type 0x%02x is not defined by LLTD' % ty, function=fn, file=fnf)
        else:
            rep.check(d.lo >= lim[0] and d.hi <= lim[1], 'R02.4', 'hello|length-0x%02x%s' % (ty, tag),
                      'Hello: property 0x%02x has length %s, legal is %d..%d' % (ty, d, lim[0], lim[1]), function=fn, file=fnf,
                      sample={'tlv': '0x%02x' % ty, 'length': repr(d)} if len(rep.samples) < 36 else None)
        pos = pos.add(Lin({}, 2)).add(lin_of(lb))
    else:
        rep.fail('R02.4', 'hello|chain-too-long' + tag, 'Hello property list does not terminate within 40 properties', function=fn, file=fnf)
        return
    if not end_ok and steps >= 40:
        return
    # Hello must fit the smallest MTU
    rep.check(st.prove_le(sn.length, C(576)), 'R02.6', 'hello|576' + tag, 'Hello length %s may exceed the minimum MTU 576' % short(sn.length), function=fn, file=fnf)
