"""C13 — RepeatBand back-off follows its formula and is monotone in load.

band_update_stats and band_choose_hello_time are interpreted abstractly with
r, the prior count and `begun` as symbols; every resulting path carries the
stored count as a polynomial in r (or a constant) together with the path's
constraints, which is compared with min(NMAX, ALPHA*r^BETA).  Any unsigned
wrap on the data path is reported."""
from ..common import Report, finish
from ..facts import AnalysisBroken, walk, fn_body
from ..terms import C, ZERO, INF, short, Dom, is_const, lin_of, Lin
from ..engine import run_entry, mk_obj, new_state
from ..absint import Val
from ..port import PortModel
from ..engine import Engine
from .. import oracle, mem
from .automata_common import load_core, AUTOMATA_UNIT, collect_failures


def poly(t):
    """Polynomial normal form {monomial(tuple of atoms): coeff} of an exact term."""
    k = t[0]
    if k == 'c':
        return {(): t[1]} if t[1] else {}
    if k in ('add', 'sub'):
        a, b = poly(t[1]), poly(t[2])
        out = dict(a)
        for m, c in b.items():
            out[m] = out.get(m, 0) + (c if k == 'add' else -c)
        return {m: c for m, c in out.items() if c}
    if k == 'neg':
        return {m: -c for m, c in poly(t[1]).items()}
    if k == 'mul':
        a, b = poly(t[1]), poly(t[2])
        out = {}
        for m1, c1 in a.items():
            for m2, c2 in b.items():
                m = tuple(sorted(m1 + m2, key=repr))
                out[m] = out.get(m, 0) + c1 * c2
        return {m: c for m, c in out.items() if c}
    if k == 'shl' and is_const(t[2]):
        return {m: c << t[2][1] for m, c in poly(t[1]).items()}
    return {(t,): 1}


class WrapEngine(Engine):
    def __init__(self, *a, **k):
        Engine.__init__(self, *a, **k)
        self.wraps = []

    def on_unsigned_wrap(self, st, r, ty, node, op, d):
        # only arithmetic on the Hello counter's data path counts: the operands must involve the symbol r
        # (a diagnostics counter such as `blocks++` may wrap without touching the count)
        from ..terms import atoms_of
        involved = any(a[0] == 'sym' and a[1] == 'r' for a in atoms_of(st.canon(r)))
        self.wraps.append((self.fn, node, op, ty, d, involved))


def run(tier):
    rep = Report('C13', tier)
    prog = load_core('systemd')
    ix = prog.unit(AUTOMATA_UNIT)
    for f in ('band_update_stats', 'band_choose_hello_time', 'init_automata_enumeration', 'band_init_stats'):
        if f not in ix.functions:
            raise AnalysisBroken('anchor function %s vanished' % f)
    B = oracle.BAND
    NMAX, ALPHA, BETA = B['NMAX'], B['ALPHA'], B['BETA']
    brec = ix.parse_type('band_state').rec
    off = lambda n: brec.field(n)[1]
    rep.rule('R13.1', 'band_update_stats: on every path the stored count equals min(NMAX, ALPHA*r^BETA) (polynomial identity + path constraints)', floor=2)
    rep.rule('R13.2', 'no unsigned wrap-around on the data path r -> Ni', floor=1)
    rep.rule('R13.3', 'count stays within [ALPHA, NMAX] (inductive: constructors store ALPHA, update keeps the range)', floor=3)
    rep.rule('R13.4', 'band_choose_hello_time: interval = ceil(TXC*Ni*20/(3*GAMMA)) exactly (both bounds), never below the frame-time floor', floor=2)
    rep.rule('R13.6', 'tick: whenever a block ends (statistics updated) the next Hello is re-scheduled from the updated count: deadline - now >= ceil(80*Ni_new/30)', floor=2)
    rep.rule('R13.7', 'every other function that ends a block (reaches band_update_stats) re-schedules the next Hello from the updated count before it returns', floor=1)
    rep.rule('R13.5', 'who-may-write Ni: only the constructor, band_init_stats and band_update_stats', floor=1)

    r = ('sym', 'r', 0, (1 << 32) - 1)
    ni0 = ('sym', 'Ni@entry', ALPHA, NMAX)
    begun = ('sym', 'begun', 0, 1)

    def mk_band(st):
        o = mk_obj(st, 'in:band', brec.size, kind='heap', default='sym')
        o.cells[((), off('Ni'))] = (4, ni0)
        o.cells[((), off('r'))] = (4, r)
        o.cells[((), off('begun'))] = (1, begun)
        return [Val(ix.parse_type('band_state *'), ('ptr', 'in:band', ZERO))]

    # ---- update
    E = WrapEngine(prog, port=PortModel())
    I, outs = run_entry(prog, AUTOMATA_UNIT, 'band_update_stats', lambda I, st: mk_band(st), engine=E, name='band_update_stats', tracked=(r, begun))
    collect_failures(rep, I, 'R13.ub')
    fnode = ix.functions['band_update_stats']
    for fn, node, op, ty, d, involved in E.wraps:
        if fn == 'band_update_stats' and op in ('mul', 'add', 'shl') and involved:
            rep.fail('R13.2', 'band_update_stats|%s|%s' % (op, ty), 'unsigned %s arithmetic (%s) on the path r -> Ni may wrap around: mathematical range %s'
                     % (ty, op, d), node=node, function=fn)
    if not any(w[0] == 'band_update_stats' and w[5] for w in E.wraps):
        rep.ok('R13.2')
    want = {(r, r) if BETA == 2 else tuple([r] * BETA): ALPHA}
    monomial = None
    rep.rule('R13.10', 'a block opened by band_update_stats runs for a fixed positive time from now: its deadline is the current clock plus a constant (not the previous deadline plus a step, which lets late ticks close "blocks" of one Hello each)', floor=1)
    NOW0 = ('sym', 'clock.ms.0', 1, 1 << 63)
    spans = set()
    for s2, _ in outs:
        o = s2.objs['in:band']
        if off('block_timeout_ts') is not None:
            dl = s2.canon(mem.load_scalar(s2, o, C(off('block_timeout_ts')), ix.parse_type('unsigned long long')))
            d_ = lin_of(dl).add(lin_of(NOW0), -1)
            okd = d_.is_const() and d_.k > 0
            rep.check(okd, 'R13.10', 'update|block-deadline', 'after the statistics update the block deadline is %s: not the current clock plus a positive constant - the length of the next '
                      'block (and with it the r the formula is applied to) then depends on when earlier ticks happened' % short(dl), node=fnode, function='band_update_stats',
                      sample={'block_deadline_minus_now': d_.k if okd else short(dl)})
            if okd:
                spans.add(d_.k)
    rep.check(len(spans) <= 1, 'R13.10', 'update|block-length', 'blocks of different lengths %s are opened on different paths' % sorted(spans), node=fnode, function='band_update_stats')
    for s2, _ in outs:
        o = s2.objs['in:band']
        got = s2.canon(mem.load_scalar(s2, o, C(off('Ni')), ix.parse_type('unsigned int')))
        dr = s2.dom(r)
        db = s2.dom(begun)
        active = dr.lo >= 1 and db.lo >= 1
        inactive = dr.hi == 0 or db.hi == 0
        desc = {'r': repr(dr), 'begun': repr(db), 'Ni': short(got), 'facts': [repr(f) for f in s2.facts][:4]}
        if inactive:
            rep.check(got == ni0, 'R13.1', 'update|inactive', 'count changes to %s although r == 0 or enumeration has not begun' % short(got),
                      node=fnode, function='band_update_stats', sample=desc)
            continue
        if not active:
            rep.fail('R13.1', 'update|partition', 'path mixes active and inactive blocks (r %s, begun %s): cannot be compared' % (dr, db),
                     node=fnode, function='band_update_stats')
            continue
        # oracle value ALPHA*r^BETA
        if is_const(got):
            okc = got[1] == NMAX
            # need ALPHA*r^BETA >= NMAX on this path
            lo = ALPHA * (int(dr.lo) ** BETA)
            big = lo >= NMAX
            if not big:
                for cand in candidates(s2, r, BETA):
                    if s2.prove_le(C(NMAX), ('mul', C(ALPHA), cand)):
                        big = True
                        break
            rep.check(okc and big, 'R13.1', 'update|clamped',
                      'stored count is the constant %d on a path with r in %s where min(NMAX, ALPHA*r^BETA) is not proven to be NMAX=%d'
                      % (got[1], dr, NMAX), node=fnode, function='band_update_stats', sample=desc)
            rep.check(ALPHA <= got[1] <= NMAX, 'R13.3', 'update|range-const', 'count %d outside [ALPHA,NMAX]' % got[1], node=fnode, function='band_update_stats')
        else:
            p = poly(got)
            okp = p == want
            fits = okp and s2.prove_le(got, C(NMAX))
            rep.check(okp and fits, 'R13.1', 'update|formula',
                      'stored count is %s on a path with r in %s; expected ALPHA*r^BETA = %d*r^%d with the path implying it does not exceed NMAX'
                      % (short(got), dr, ALPHA, BETA), node=fnode, function='band_update_stats', sample=desc)
            d = s2.dom(got)
            rep.check(d.lo >= ALPHA and (d.hi <= NMAX or fits), 'R13.3', 'update|range', 'count range %s not within [ALPHA,NMAX]' % d,
                      node=fnode, function='band_update_stats')

    # ---- constructors store ALPHA
    for ctor in ('init_automata_enumeration', 'band_init_stats'):
        if ctor == 'band_init_stats':
            I2, o2 = run_entry(prog, AUTOMATA_UNIT, ctor, lambda I, st: mk_band(st), port=PortModel(), name=ctor)
            oid = 'in:band'
        else:
            I2, o2 = run_entry(prog, AUTOMATA_UNIT, ctor, lambda I, st: [], port=PortModel(alloc_may_fail=False), name=ctor)
            oid = None
        for s2, v in o2:
            if oid is None:
                a = s2.objs[s2.canon(v.t)[1]]
                arec = ix.parse_type('automata').rec
                ext = s2.canon(mem.load_scalar(s2, a, C(arec.field('extra')[1]), ix.parse_type('void *')))
                bo = s2.objs[ext[1]]
            else:
                bo = s2.objs[oid]
            got = s2.canon(mem.load_scalar(s2, bo, C(off('Ni')), ix.parse_type('unsigned int')))
            rep.check(got == C(ALPHA), 'R13.3', '%s|init' % ctor, '%s initialises the count to %s, not ALPHA=%d' % (ctor, short(got), ALPHA),
                      node=ix.functions[ctor], function=ctor)

    # ---- hello time
    E2 = WrapEngine(prog, port=PortModel())
    I3, o3 = run_entry(prog, AUTOMATA_UNIT, 'band_choose_hello_time', lambda I, st: mk_band(st), engine=E2, name='band_choose_hello_time')
    collect_failures(rep, I3, 'R13.ub')
    cnode = ix.functions['band_choose_hello_time']
    for fn, node, op, ty, d, _inv in E2.wraps:
        rep.fail('R13.4', 'band_choose_hello_time|wrap|%s' % op, 'unsigned %s arithmetic may wrap in the interval computation: %s' % (op, d), node=node, function=fn)
    num = B['TXC'] * 20
    den = 3 * B['GAMMA']
    floor_ms = (1 * 20) // 3
    now = ('sym', 'clock.ms.0', 1, 1 << 63)
    for s2, v in o3:
        o = s2.objs['in:band']
        ts = s2.canon(mem.load_scalar(s2, o, C(off('hello_timeout_ts')), ix.parse_type('unsigned long long')))
        interval = I3.simp(('sub', ts, now))
        lower = s2.prove_le(('mul', C(num), ni0), ('mul', C(den), interval))
        upper = s2.prove_le(('mul', C(den), interval), ('add', ('mul', C(num), ni0), C(den - 1)))
        fl = s2.prove_le(C(floor_ms), interval)
        isfloor = s2.canon(interval) == C(floor_ms)
        rep.check(lower and fl and (upper or isfloor), 'R13.4', 'choose|formula',
                  'next Hello time is clock + %s: not ceil(%d*Ni/%d) (lower bound %s, upper bound %s, floor %s)'
                  % (short(interval), num, den, lower, upper, fl), node=cnode, function='band_choose_hello_time',
                  sample={'interval': short(interval), 'path': [p for p in s2.path][-3:]})
        rv = s2.canon(v.t)
        rep.check(rv == ts, 'R13.4', 'choose|return', 'returned deadline %s differs from the stored one %s' % (short(rv), short(ts)),
                  node=cnode, function='band_choose_hello_time')

    tick_reschedule(rep, prog, ix, brec, B)
    tick_reschedule(rep, prog, ix, brec, B, block_due=False)
    tick_reschedule(rep, prog, ix, brec, B, tx_slot=False)
    tick_reschedule(rep, prog, ix, brec, B, block_due=False, tx_slot=False)
    block_enders(rep, prog, ix, brec, B)

    # ---- who may write Ni (all parsed units of this configuration)
    writers = set()
    for uix in prog.index.values():
        for fname, fn in uix.functions.items():
            for n in walk(fn):
                if n.get('kind') in ('BinaryOperator', 'CompoundAssignOperator') and n.get('opcode', '').endswith('=') and n.get('opcode') not in ('==', '!=', '<=', '>='):
                    lhs = n['inner'][0]
                    while lhs.get('kind') == 'ParenExpr':
                        lhs = lhs['inner'][0]
                    if lhs.get('kind') == 'MemberExpr' and lhs.get('name') == 'Ni':
                        rp = uix.field_parent.get(lhs.get('referencedMemberDecl'))
                        if rp and rp[0].name in ('band_state', 'struct band_state'):
                            writers.add(fname)
                            ok = fname in ('init_automata_enumeration', 'band_init_stats', 'band_update_stats')
                            rep.check(ok, 'R13.5', 'writer|%s' % fname, 'function %s writes the repetition count outside the RepeatBand update' % fname,
                                      node=n, function=fname)
    rep.analysed.update({'writers_of_Ni': sorted(writers), 'constants': B, 'update_paths': len(outs), 'choose_paths': len(o3)})
    return finish(rep, 'proof',
                  'band_update_stats / band_choose_hello_time interpreted with r in [0,2^32), prior count in [ALPHA,NMAX] and begun in {0,1} as symbols. '
                  'Each path yields the stored count as a polynomial in r with its constraints; identity with ALPHA*r^BETA and the clamp are decided by '
                  'polynomial normal form, intervals and linear entailment; monotonicity follows from the exact formula (min of a monotone polynomial) and the exact ceil.',
                  'abstract interpretation with polynomial terms + interval/linear entailment; wrap detection', exhaustive=True)


def block_enders(rep, prog, ix, brec, B):
    """R13.7 - the tick is not the only code that could end a block.  Every core function from which band_update_stats is
    reachable (other than the tick, decided by R13.6, and the updater itself) is interpreted with a symbolic RepeatBand block;
    on each of its paths that ran the update, the Hello deadline it leaves must respect the count it has just stored.
    Functions that never end a block are instances too (they pass), so the rule cannot go vacuous unnoticed."""
    from ..facts import fn_params
    fnf = 'lltdResponder/lltdAutomata.c'
    UPD, CHOOSE = 'band_update_stats', 'band_choose_hello_time'
    calls = {}
    allfns = {}
    for uix in prog.index.values():
        for fname, fn in uix.functions.items():
            if (fn.get('_file') or '').startswith(facts_core_dir()):
                allfns.setdefault(fname, fn)
    for fname, fn in allfns.items():
        for n in walk(fn):
            if n.get('kind') == 'CallExpr' and n.get('inner'):
                c = n['inner'][0]
                while c.get('kind') in ('ImplicitCastExpr', 'ParenExpr'):
                    c = c['inner'][0]
                if c.get('kind') == 'DeclRefExpr':
                    calls.setdefault(fname, set()).add(c.get('referencedDecl', {}).get('name'))
    reach = {UPD}
    grew = True
    while grew:
        grew = False
        for f, cs in calls.items():
            if f not in reach and cs & reach:
                reach.add(f)
                grew = True
    NOW = ('sym', 'clock.ms.0', 1, 1 << 63)
    num, den = B['TXC'] * 20, 3 * B['GAMMA']
    off = lambda n: brec.field(n)[1]
    examined = 0
    for fname, fn in sorted(allfns.items()):
        if fname in (UPD, CHOOSE, 'automata_tick') or fn_body(fn) is None:
            continue
        ps = fn_params(fn)
        pts = [' '.join(p_['type']['qualType'].replace('struct ', '').replace('const ', '').split()) for p_ in ps]
        if 'band_state *' not in pts:
            if fname in reach and fn.get('storageClass') != 'static':
                # an entry point of another shape from which the update is reachable: the update must be followed, in the
                # same block of statements, by the re-scheduling call
                rep.check(followed_by(fn, UPD, CHOOSE), 'R13.7', 'ender|%s|structural' % fname,
                          '%s reaches band_update_stats (ends an enumeration block) without calling band_choose_hello_time after it: the Hello '
                          'scheduled under the old count stays in force' % fname, node=fn, function=fname)
            continue
        if fn.get('storageClass') == 'static' and fname not in reach:
            continue
        examined += 1
        R = ('sym', 'band.r', 0, (1 << 32) - 1)
        NI = ('sym', 'band.Ni@entry', B['ALPHA'], B['NMAX'])
        HT = ('sym', 'band.hello_timeout_ts@entry', 0, 1 << 62)
        BT = ('sym', 'band.block_timeout_ts@entry', 0, 1 << 62)

        def setup(I, st, fn=fn, pts=pts, ps=ps):
            o = mk_obj(st, 'in:band', brec.size, kind='heap', default='sym')
            o.cells[((), off('Ni'))] = (4, NI)
            o.cells[((), off('r'))] = (4, R)
            o.cells[((), off('hello_timeout_ts'))] = (8, HT)
            o.cells[((), off('block_timeout_ts'))] = (8, BT)
            args = []
            from .safety import sym_arg
            for p_, t_ in zip(ps, pts):
                if t_ == 'band_state *':
                    args.append(Val(ix.parse_type('band_state *'), ('ptr', 'in:band', ZERO)))
                else:
                    args.append(sym_arg(I, st, ix, p_))
            return args

        def upd(I, s2, args, node, rty):
            s2.tags = dict(s2.tags)
            s2.tags['block-ended'] = True
            ixx, f2 = I.prog.resolve(I.ix, UPD)
            return I.inline(s2, ixx, f2, args, node, rty)
        E = Engine(prog, port=PortModel(), summaries={UPD: upd})
        I, outs = run_entry(prog, AUTOMATA_UNIT, fname, setup, engine=E, name='%s[block end?]' % fname)
        collect_failures(rep, I, 'R13.ub')
        ended = 0
        for s2, v in outs:
            if not s2.tags.get('block-ended'):
                continue
            ended += 1
            b2 = s2.objs['in:band']
            ni2 = s2.canon(mem.load_scalar(s2, b2, C(off('Ni')), ix.parse_type('unsigned int')))
            hts = s2.canon(mem.load_scalar(s2, b2, C(off('hello_timeout_ts')), ix.parse_type('unsigned long long')))
            ok = s2.prove_le(('mul', C(num), ni2), ('mul', C(den), ('sub', hts, NOW)))
            rep.check(ok, 'R13.7', 'ender|%s|reschedule' % fname,
                      '%s ends an enumeration block (band_update_stats runs, count becomes %s) but leaves the next Hello scheduled at %s: not re-computed from the updated '
                      'count, so it can go out sooner than ceil(%d*Ni/%d) allows' % (fname, short(ni2), short(hts), num, den), node=fn, function=fname)
        if not ended:
            rep.ok('R13.7')
    if examined < 1:
        rep.broke('only %d RepeatBand functions examined for block ends' % examined)
    # ---- r is the number of Hellos heard in the block: the receive hook counts every one of them
    HEARD = 'band_on_hello_received'
    rep.rule('R13.8', 'every Hello heard adds exactly one to r (the count the back-off formula is applied to), for every r below 2^32-1', floor=1)
    if HEARD not in allfns:
        raise AnalysisBroken('anchor function %s vanished' % HEARD)
    R = ('sym', 'band.r', 0, (1 << 32) - 2)

    def setup_h(I, st):
        o = mk_obj(st, 'in:band', brec.size, kind='heap', default='sym')
        o.cells[((), off('r'))] = (4, R)
        return [Val(ix.parse_type('band_state *'), ('ptr', 'in:band', ZERO))]
    I, outs = run_entry(prog, AUTOMATA_UNIT, HEARD, setup_h, port=PortModel(), name=HEARD + '[count]', tracked=(R,))
    collect_failures(rep, I, 'R13.ub')
    for s2, v in outs:
        r2 = s2.canon(mem.load_scalar(s2, s2.objs['in:band'], C(off('r')), ix.parse_type('unsigned int')))
        ok = s2.same(r2, I.simp(('add', R, C(1)))) or (s2.prove_le(r2, ('add', R, C(1))) and s2.prove_le(('add', R, C(1)), r2))
        rep.check(ok, 'R13.8', 'heard|plus-one', 'after a Hello is heard r is %s where it was %s: not every Hello heard is counted, so the repetition count is computed '
                  'from fewer Hellos than were heard (r in %s on this path)' % (short(r2), short(R), s2.dom(R)), node=allfns[HEARD], function=HEARD)
    rep.analysed['block_enders_examined'] = examined


def facts_core_dir():
    from ..facts import REPO
    import os
    return os.path.join(REPO, 'lltdResponder')


def followed_by(fn, first, then):
    """Every call of `first` inside fn is followed, later in the same compound statement, by an unconditional call of `then`."""
    def calls_in(n, name):
        for m in walk(n):
            if m.get('kind') == 'CallExpr' and m.get('inner'):
                c = m['inner'][0]
                while c.get('kind') in ('ImplicitCastExpr', 'ParenExpr'):
                    c = c['inner'][0]
                if c.get('kind') == 'DeclRefExpr' and c.get('referencedDecl', {}).get('name') == name:
                    return True
        return False
    found = [False]
    okall = [True]

    def visit(n):
        if n.get('kind') == 'CompoundStmt':
            kids = n.get('inner') or []
            for i, k in enumerate(kids):
                if k.get('kind') not in ('CompoundStmt', 'IfStmt', 'ForStmt', 'WhileStmt', 'DoStmt', 'SwitchStmt') and calls_in(k, first):
                    found[0] = True
                    if not any(kk.get('kind') not in ('IfStmt', 'ForStmt', 'WhileStmt', 'DoStmt', 'SwitchStmt') and calls_in(kk, then) for kk in kids[i + 1:]):
                        okall[0] = False
        for k in n.get('inner') or []:
            if isinstance(k, dict):
                visit(k)
    visit(fn)
    return okall[0]


def candidates(st, r, beta):
    """Monomial terms r^beta in the shapes the engine builds."""
    out = []
    t = r
    for _ in range(beta - 1):
        t = ('mul', r, t) if repr(r) <= repr(t) else ('mul', t, r)
    out.append(t)
    return out


def tick_reschedule(rep, prog, ix, brec, B, block_due=True, tx_slot=True):
    """automata_tick, RepeatBand in Pausing, block timeout due: after the tick the Hello deadline must respect the count
    the tick has just computed (whatever else happened in the same tick, e.g. a Hello having been sent)."""
    from .automata_common import Automaton
    fnf = 'lltdResponder/lltdAutomata.c'
    Eu = Automaton(prog, 'init_automata_enumeration', 'switch_state_enumeration')
    trec = ix.parse_type('session_table').rec
    prec_ = ix.parse_type('lltd_automata_tick_port').rec
    from ..facts import WORD as W
    NOW = ('sym', 'clock.ms.0', 1, 1 << 63)
    R = ('sym', 'band.r', 0, (1 << 32) - 1)
    NI = ('sym', 'band.Ni@entry', B['ALPHA'], B['NMAX'])
    BG = ('sym', 'band.begun', 0, 1)
    HT = ('sym', 'band.hello_timeout_ts@entry', 0, 1 << 62)
    BT = ('sym', 'band.block_timeout_ts@entry', 1, 1 << 62) if block_due else ZERO     # (second run: no block timer armed)
    LTX = ('sym', 'last_hello_tx_ms@entry', 0, 1 << 62)
    st = Eu.state0.fork()
    st.trace, st.tags = (), {}
    st.tags['clkfloor.ms'] = (LTX, BT) if block_due else (LTX,)          # the block deadline has passed: BT <= now
    e = st.objs[Eu.oid]
    e.cells[((), Eu.field_off('current_state'))] = (1, C(1))
    bext = st.canon(mem.load_scalar(st, e, C(Eu.field_off('extra')), ix.parse_type('void *')))
    band = st.objs[bext[1]]
    band.cells.clear()
    band.default = 'sym'
    off = lambda n: brec.field(n)[1]
    band.cells[((), off('Ni'))] = (4, NI)
    band.cells[((), off('r'))] = (4, R)
    band.cells[((), off('begun'))] = (1, BG)
    band.cells[((), off('hello_timeout_ts'))] = (8, HT)
    band.cells[((), off('block_timeout_ts'))] = (8, BT)
    t = mk_obj(st, 'in:sessions', trec.size, kind='heap', default='zero', heap=True)
    t.zeroed_n = t.size
    t.cells[((), trec.field('count')[1])] = (1, C(1))           # one session, not complete: the enumerator keeps running
    t.cells[((), trec.field('all_complete')[1])] = (1, ZERO)
    po = mk_obj(st, 'in:tickport', prec_.size, kind='heap', default='sym')
    lt = mk_obj(st, 'in:last_tx', 8, kind='heap', default='sym')
    lt.cells[((), 0)] = (8, LTX)
    mk_obj(st, 'ext:netif', 1, kind='ext', default='unknown')
    po.cells[((), prec_.field('network_interface')[1])] = (W, ('ptr', 'ext:netif', ZERO))
    # (the slot for the last-transmit time is optional: ports without it still transmit - second pair of runs)
    po.cells[((), prec_.field('last_hello_tx_ms')[1])] = (W, ('ptr', 'in:last_tx', ZERO) if tx_slot else ZERO)
    po.cells[((), prec_.field('send_hello')[1])] = (W, ('fn', 'send_hello'))

    def setup(I, st2):
        ap = ix.parse_type('automata *')
        return [Val(ap, ZERO), Val(ap, Eu.ret.t), Val(ix.parse_type('session_table *'), ('ptr', 'in:sessions', ZERO)),
                Val(ix.parse_type('const lltd_automata_tick_port *'), ('ptr', 'in:tickport', ZERO))]

    def upd(I, s2, args, node, rty):
        return [(s2, Val(rty, ZERO))]
    E = Engine(prog, port=PortModel(), summaries={'session_table_update_complete_status': upd})
    I, outs = run_entry(prog, AUTOMATA_UNIT, 'automata_tick', setup, engine=E, state=st, tracked=(R, BG, LTX), name='automata_tick[block end]')
    collect_failures(rep, I, 'R13.ub')
    num, den = B['TXC'] * 20, 3 * B['GAMMA']
    nupd = 0
    rep.rule('R13.9', 'the tick never counts a Hello as heard: on every path it leaves r as it was, or resets it where a block ends (own transmissions are not load)', floor=2)
    rep.rule('R13.11', 'enumeration has begun once the responder\'s own Hello is out: a tick that transmits it leaves `begun` set, with or without the optional last-transmit slot of the port', floor=1)
    for s2, v in outs:
        b2 = s2.objs[bext[1]]
        if any(x[0] == 'indirect' for x in s2.trace):
            bg2 = s2.dom(s2.canon(mem.load_scalar(s2, b2, C(off('begun')), ix.parse_type('unsigned char'))))
            rep.check(bg2.lo >= 1, 'R13.11', 'tick|begun-after-send%s%s' % ('' if tx_slot else '|no-slot', '' if block_due else '|no-block-end'),
                      'a tick transmits the responder\'s own Hello%s but leaves begun = %s: the blocks that follow are not counted (the back-off formula is never applied)'
                      % ('' if tx_slot else ' (port without a last-transmit slot)', bg2), function='automata_tick', file=fnf)
        bt2 = s2.canon(mem.load_scalar(s2, b2, C(off('block_timeout_ts')), ix.parse_type('unsigned long long')))
        r2 = s2.canon(mem.load_scalar(s2, b2, C(off('r')), ix.parse_type('unsigned int')))
        sent_ = any(x[0] == 'indirect' for x in s2.trace)
        rep.check(s2.same(r2, R) or (block_due and r2 == ZERO), 'R13.9', 'tick|r|%s%s' % ('after-send' if sent_ else 'no-send', '' if block_due else '|no-block-end'),
                  'a tick%s changes the number of Hellos heard in this block from %s to %s: the responder counts something other than Hellos it received as load'
                  % (' that transmits the responder\'s own Hello' if sent_ else '', short(R), short(r2)), function='automata_tick', file=fnf)
        if bt2 == s2.canon(BT) or not block_due:
            continue                      # no block ended on this path
        nupd += 1
        ni2 = s2.canon(mem.load_scalar(s2, b2, C(off('Ni')), ix.parse_type('unsigned int')))
        hts = s2.canon(mem.load_scalar(s2, b2, C(off('hello_timeout_ts')), ix.parse_type('unsigned long long')))
        sent = any(x[0] == 'indirect' for x in s2.trace)
        ok = s2.prove_le(('mul', C(num), ni2), ('mul', C(den), ('sub', hts, NOW)))
        rep.check(ok, 'R13.6', 'tick|reschedule|%s' % ('after-send' if sent else 'no-send'),
                  'a block ends in this tick%s and the count becomes %s, but the next Hello stays scheduled at %s: sooner than the load formula ceil(%d*Ni/%d) for the new count allows'
                  % (' (a Hello was also sent in it)' if sent else '', short(ni2), short(hts), num, den), function='automata_tick', file=fnf,
                  sample={'block_end': True, 'hello_sent_same_tick': sent, 'Ni_after': short(ni2)})
    if nupd == 0 and block_due:
        rep.fail('R13.6', 'tick|no-block-end', 'no path of the tick ends an enumeration block', function='automata_tick', file=fnf)
