"""C16 — the session table stays consistent under any sequence of operations.

Inductive-invariant ingredients, decided per operation on a fully symbolic
16-entry table (every loop summarised by one symbolic iteration k):
count bookkeeping is exact (+1 with valid 0->1, -1 with valid 1->0, 0 with a
wipe), insertion happens only after a lookup with the same key missed and only
into a free slot, a full table is left untouched, the 'all complete' flag is
recomputed as a for-all over valid entries, expiry uses the 60 s rule.
Equivalence with a dictionary model over whole histories is concluded from
these by induction; it is not itself enumerated."""
from ..common import Report, finish
from ..facts import AnalysisBroken, walk
from ..engine import Engine, run_entry, mk_obj
from ..absint import Val
from ..port import PortModel
from ..terms import C, ZERO, ONE, INF, short, is_const, lin_of, Lin, mk_cat, Dom
from .. import mem, oracle
from .automata_common import load_core, AUTOMATA_UNIT

CNT = ('sym', 'count@entry', 0, 16)
GEN = ('sym', 'arg.generation', 0, 65535)
SEQ = ('sym', 'arg.seq', 0, 65535)
API = ('session_table_create', 'session_table_destroy', 'session_table_find', 'session_table_add', 'session_table_remove',
       'session_table_update_complete_status', 'session_table_is_empty', 'session_table_all_complete', 'session_table_clear')
WRITERS_OK = set(API) | {'automata_tick'}


def compared_equal(st, loc, target):
    """Did this path establish (at some earlier point, the location not having been written since within
    the iteration) that the table byte at offset term `loc` equals `target`?"""
    loc = st.canon(loc) if loc[0] != 'c' else loc
    lk = lin_of(loc).key()
    tg = st.canon(target)
    for a, b in st.eq.items():
        for x, y in ((a, b), (b, a)):
            if x[0] == 'in' and str(x[1]).startswith('region:T#') and st.canon(y) == tg:
                off = x[2] if isinstance(x[2], tuple) else C(x[2])
                if lin_of(off).key() == lk:
                    return True
    return False


class Ctx(object):
    def __init__(self, prog):
        self.prog = prog
        self.ix = prog.unit(AUTOMATA_UNIT)
        self.trec = self.ix.parse_type('session_table').rec
        self.erec = self.ix.parse_type('session_entry').rec
        for f in API + ('automata_tick',):
            if f not in self.ix.functions:
                raise AnalysisBroken('anchor function %s vanished' % f)
        self.esz = self.erec.size
        self.eoff = self.trec.field('entries')[1]
        et = self.ix.parse_type(self.trec.field('entries')[2])
        self.cap = et.n
        self.ty = self.ix.parse_type

    def toff(self, n):
        return self.trec.field(n)[1]

    def foff(self, n):
        return self.erec.field(n)[1]

    def run(self, fname, args_fn, extra=None, no_merge=False):
        E = Engine(self.prog, port=PortModel())
        E.loop_info = {}
        E.keep_iter_states = True
        E.force_summary = True
        # (the inductive summary is wanted for the table scans of the API and the tick; small fixed loops of helpers - an
        #  address compare or copy, in whatever form - are simply unrolled)
        E.force_summary_fns = set(API) | {'automata_tick'}
        E.no_merge = no_merge      # small functions whose rules read per-path knowledge (what was compared) off the states
        calls = []

        def find_summary(I, st, args, node, rty):
            ixx, f2 = I.prog.resolve(I.ix, 'session_table_find')
            outs = I.inline(st, ixx, f2, args, node, rty)
            for s2, v in outs:
                s2.tags['find'] = (tuple(s2.canon(a.t) for a in args[:3]), s2.canon(v.t))
            return outs
        if fname != 'session_table_find':
            E.summaries = {'session_table_find': find_summary}

        def setup(I, st):
            t = mk_obj(st, 'T', self.trec.size, kind='heap', default='sym', heap=True)
            t.cells[((), self.toff('count'))] = (1, CNT)
            mk_obj(st, 'MAC', 6, kind='heap', default='sym')
            if extra:
                extra(I, st)
            return args_fn(st)
        I, outs = run_entry(self.prog, AUTOMATA_UNIT, fname, setup, engine=E, name=fname)
        return I, outs

    def field(self, st, base_off, name, n):
        T = st.objs['T']
        ty = {1: 'unsigned char', 2: 'unsigned short', 8: 'unsigned long long'}[n]
        return st.canon(mem.load_scalar(st, T, ('add', base_off, C(self.foff(name))), self.ty(ty)))

    def tfield(self, st, name):
        return st.canon(mem.load_scalar(st, st.objs['T'], C(self.toff(name)), self.ty('unsigned char')))

    def key_matches(self, st, base_off):
        """Does the path know entry@base_off is valid and has the searched key?"""
        T = st.objs['T']
        v = st.dom(self.field(st, base_off, 'valid', 1))
        macok = all(st.same(mem.load_bytes(st, T, ('add', base_off, C(self.foff('mapper_mac') + j)), 1)[0], ('in', 'MAC', j))
                    or compared_equal(st, ('add', base_off, C(self.foff('mapper_mac') + j)), ('in', 'MAC', j)) for j in range(6))
        gf = self.field(st, base_off, 'generation', 2)
        from ..terms import mk_byte
        genok = st.same(gf, GEN) or self.gen_compared(st, base_off) or \
            all(st.canon(mk_byte(gf, k_)) == st.canon(mk_byte(GEN, k_)) or st.same(mk_byte(gf, k_), mk_byte(GEN, k_)) for k_ in range(2))
        return v.lo >= 1 and macok and genok

    def gen_compared(self, st, base_off):
        g = st.canon(GEN)
        want = [lin_of(st.canon(('add', base_off, C(self.foff('generation') + i)))).key() for i in range(2)]
        for a, b in st.eq.items():
            for x, y in ((a, b), (b, a)):
                if st.canon(y) == g and x[0] == 'cat' and len(x[1]) == 2:
                    keys = []
                    for lane in x[1]:
                        if lane[0] == 'in' and str(lane[1]).startswith('region:T#'):
                            off = lane[2] if isinstance(lane[2], tuple) else C(lane[2])
                            keys.append(lin_of(off).key())
                    if keys == want:
                        return True
        return False


def run(tier):
    rep = Report('C16', tier)
    prog = load_core('systemd')
    cx = Ctx(prog)
    fnf = 'lltdResponder/lltdAutomata.c'
    rep.rule('R16.a', 'who-may-write valid / count / all_complete / entries: only the table API and the tick', floor=8)
    rep.rule('R16.find', 'lookup scans indices 0..15 and returns an entry only if it is valid and mapper address and generation are equal', floor=3)
    rep.rule('R16.add', 'add: known key -> refresh only; unknown key + free slot -> exactly one entry valid 0->1 with the key, count+1; full table -> NULL and no store', floor=10)
    rep.rule('R16.remove', 'remove: at most one valid entry with that key is invalidated, count-1 exactly then, flag recomputed', floor=4)
    rep.rule('R16.create', 'create: the table handed out is the empty table (no slot valid, count 0, all-complete true), whatever the allocator returned', floor=4)
    rep.rule('R16.clear', 'clear: every entry wiped, count 0, all-complete true', floor=3)
    rep.rule('R16.status', "'all complete' is recomputed as: no valid entry is incomplete (for-all over indices 0..15)", floor=4)
    rep.rule('R16.query', "'empty' <=> count == 0; 'all complete' returns the recomputed flag", floor=2)
    rep.rule('R16.expiry', 'tick: a valid entry is dropped iff now > last activity + 60 s, count-1 then, flag recomputed afterwards', floor=3)
    decide(rep, prog, cx)
    return finish(rep, 'other',
                  'Per-operation inductive ingredients of the table invariant (count = number of valid entries, unique key, all-complete flag = for-all) decided by abstract '
                  'interpretation of the real API on a fully symbolic 16-entry table with every loop summarised by one symbolic index: exact count deltas paired with valid '
                  'flips, lookup-before-insert with identical key, free-slot-only insertion, untouched full table, single invalidation per remove, wipe, recomputation as a '
                  'for-all, 60 s expiry. The step-by-step equivalence with a dictionary model over arbitrary histories follows by induction and is not itself enumerated; '
                  'callers outside the parsed units that poke entry->complete directly (Darwin) are not covered.',
                  'abstract interpretation with symbolic-index loop summaries; pairing / who-may-write rules', exhaustive=False)


def decide(rep, prog, cx=None):
    """All table obligations; `rep` may be a RuleView of another property's report (C12 relies on the table telling the truth)."""
    if cx is None:
        cx = Ctx(prog)
    fnf = 'lltdResponder/lltdAutomata.c'
    rep.check(cx.cap == oracle.SESSION_TABLE_CAP, 'R16.add', 'capacity', 'table capacity is %s entries, documented %d' % (cx.cap, oracle.SESSION_TABLE_CAP), file='lltdResponder/lltdAutomata.h')
    tp, mp, u16 = cx.ty('session_table *'), cx.ty('const uint8_t *'), cx.ty('unsigned short')
    T0, M0 = ('ptr', 'T', ZERO), ('ptr', 'MAC', ZERO)

    def ubs(I, rule):
        for ob in I.obs.values():
            if not ob.ok:
                rep.fail(rule, '%s|%s' % (ob.fn, ob.kind), ob.msg, node=ob.node, function=ob.fn)

    # ---------------- who may write
    writers(rep, prog)

    # ---------------- find
    check_find(rep, cx, 'R16.find')

    # ---------------- add
    rep_main, rep = rep, _BufRep()        # (reported below, after the shape-independent formulation had its say)
    I, outs = cx.run('session_table_add', lambda st: [Val(tp, T0), Val(mp, M0), Val(u16, GEN), Val(u16, SEQ)])
    ubs(I, 'R16.add')
    kinds = {'hit': 0, 'insert': 0, 'full': 0}
    for st, v in outs:
        r = st.canon(v.t)
        cnt = cx.tfield(st, 'count')
        fnd = st.tags.get('find')
        if fnd is not None and fnd[1] != ZERO:
            kinds['hit'] += 1
            ok = r == fnd[1] and st.same(cnt, CNT)
            rep.check(ok, 'R16.add', 'hit|refresh-only', 'adding a known session returns %s (found %s) and count becomes %s' % (short(r), short(fnd[1]), short(cnt)),
                      function='session_table_add', file=fnf)
            if r[0] == 'ptr':
                rep.check(st.same(cx.field(st, r[2], 'seq_number', 2), SEQ), 'R16.add', 'hit|seq', 'refresh does not store the new sequence number', function='session_table_add', file=fnf)
                la = cx.field(st, r[2], 'last_activity_ts', 8)
                rep.check(la[0] == 'sym' and str(la[1]).startswith('clock.s.'), 'R16.add', 'hit|activity', 'refresh does not update the activity time stamp (%s)' % short(la),
                          function='session_table_add', file=fnf)
                rep.check(cx.key_matches(st, r[2]), 'R16.add', 'hit|still-valid', 'refresh changes the key or validity of the entry', function='session_table_add', file=fnf)
            continue
        # lookup missed (or was not performed)
        same_args = fnd is not None and fnd[0] == (T0, M0, st.canon(GEN))
        if r == ZERO:
            kinds['full'] += 1
            T = st.objs['T']
            touched = [k for k in T.cells if k != ((), cx.toff('count'))] or mem.getattr_regions(T) and any(reg[2] != 'loop:' and False for reg in mem.getattr_regions(T))
            stores = [k for k, (w, t) in T.cells.items() if k != ((), cx.toff('count'))]
            rep.check(not stores and st.same(cnt, CNT), 'R16.add', 'full|untouched', 'adding to a full table modifies it (cells %s, count %s)' % (stores[:3], short(cnt)),
                      function='session_table_add', file=fnf, sample={'full_table': 'returns NULL, table untouched'})
            # "no room" may be the answer only for a key that is not in the table: a known session is refreshed even when every
            # slot is taken - so the refusal, too, comes after a lookup of the same key that missed
            rep.check(same_args, 'R16.add', 'full|lookup-first', 'add refuses (returns NULL) without a preceding lookup of the same (table, address, generation) that missed: with a full '
                      'table a known session is no longer refreshed (lookup: %s)' % (None if fnd is None else [short(x) for x in fnd[0]]), function='session_table_add', file=fnf)
            continue
        kinds['insert'] += 1
        rep.check(same_args, 'R16.add', 'insert|lookup-first', 'a session is inserted without a preceding lookup of the same (table, address, generation) that missed (lookup: %s)'
                  % (None if fnd is None else [short(x) for x in fnd[0]]), function='session_table_add', file=fnf)
        if r[0] != 'ptr' or r[1] != 'T':
            rep.fail('R16.add', 'insert|ret', 'insert path returns %s' % short(r), function='session_table_add', file=fnf)
            continue
        base = r[2]
        rep.check(st.same(cnt, ('add', CNT, C(1))), 'R16.add', 'insert|count', 'inserting changes count from %s to %s' % (short(CNT), short(cnt)), function='session_table_add', file=fnf,
                  sample={'insert': 'count -> ' + short(cnt)})
        rep.check(cx.key_matches(st, base), 'R16.add', 'insert|key', 'the inserted entry does not carry the requested address/generation or is not marked valid', function='session_table_add', file=fnf)
        rep.check(cx.field(st, base, 'complete', 1) == ZERO, 'R16.add', 'insert|incomplete', 'a new session is not marked incomplete', function='session_table_add', file=fnf)
        rep.check(cx.tfield(st, 'all_complete') == ZERO, 'R16.add', 'insert|flag', "inserting an incomplete session leaves 'all complete' = %s" % short(cx.tfield(st, 'all_complete')),
                  function='session_table_add', file=fnf)
        rep.check(st.same(cx.field(st, base, 'seq_number', 2), SEQ), 'R16.add', 'insert|seq', 'new entry does not store the sequence number', function='session_table_add', file=fnf)
        # the slot was free: the path must have established valid == 0 for that very slot before writing it
        was_free = compared_equal(st, ('add', base, C(cx.foff('valid'))), ZERO) or slot_known_free(st, cx, base)
        rep.check(was_free, 'R16.add', 'insert|free-slot', 'a session is written into a slot that was not established to be free (an existing session may be overwritten)',
                  function='session_table_add', file=fnf)
    for k_, n_ in kinds.items():
        rep.check(n_ > 0, 'R16.add', 'paths|' + k_, 'session_table_add has no "%s" outcome' % k_, function='session_table_add', file=fnf)
    # free-slot condition: in the insertion loop, stores happen only in iterations that found valid == 0
    for l in [l for l in I.loop_info if l.startswith('session_table_add#')]:
        k = ('sym', 'iter:' + l, 0, INF)
        for kind, trace, s2 in I.loop_info[l]['iter_states'] or []:
            T = s2.objs['T']
            wrote = any(kk[0] for kk in T.cells)
            if kind == 'continue':
                rep.check(not wrote, 'R16.add', 'insert|continue-no-store', 'the slot search writes into an entry and keeps searching', function='session_table_add', file=fnf)

    buf_add, rep = rep, rep_main
    if buf_add.failed():
        # the obligations above read the lookup-then-insert shape off inductive loop summaries; a differently organised add
        # (one fused pass remembering the first free slot) gets the shape-independent formulation on the unrolled loops
        try:
            conc = add_concrete(cx)
        except Exception as e_:
            conc = None
            rep.analysed['add_unrolled'] = 'not available: %s' % str(e_)[:120]
        if conc is not None and all(ok_ for ok_, _k, _m in conc):
            for ok_, key_, _m in conc:
                rep.check(True, 'R16.add', key_, '', function='session_table_add', file=fnf)
            rep.analysed['add_formulation'] = 'unrolled (the summarised formulation did not apply: %d obligations)' % len(buf_add.failed())
        else:
            buf_add.flush(rep)
            for ok_, key_, m_ in (conc or []):
                if not ok_:
                    rep.fail('R16.add', key_, m_, function='session_table_add', file=fnf)
    else:
        buf_add.flush(rep)

    # ---------------- remove
    I, outs = cx.run('session_table_remove', lambda st: [Val(tp, T0), Val(mp, M0), Val(u16, GEN)])
    ubs(I, 'R16.remove')
    rl = [l for l in I.loop_info if l.startswith('session_table_remove#')]
    for st, v in outs:
        ac = cx.tfield(st, 'all_complete')
        # (a flag the status function computed from its own scan - `pending == 0` - is a recomputed flag; whether that scan is
        #  right is R16.status)
        by_status = ac[0] == 'eq' and 'hv:session_table_update_complete_status#' in short(ac)
        rep.check(ac in (ZERO, ONE) or by_status, 'R16.remove', 'recompute', "remove does not end with a recomputed 'all complete' flag (%s)" % short(ac), function='session_table_remove', file=fnf)
    ncleared = 0
    for l in rl:
        k = ('sym', 'iter:' + l, 0, INF)
        base = ('add', ('mul', C(cx.esz), k), C(cx.eoff))
        start = I.loop_info[l].get('iter_start')
        c0 = cx.tfield(start, 'count') if start is not None else CNT
        for kind, trace, s2 in I.loop_info[l]['iter_states'] or []:
            T = s2.objs['T']
            vcell = T.cells.get(mem.off_key(s2, ('add', base, C(cx.foff('valid')))))
            cleared = vcell is not None and s2.canon(vcell[1]) == ZERO
            cnt = cx.tfield(s2, 'count')
            c0s = s2.canon(c0)
            if cleared:
                ncleared += 1
                # must have matched (and been valid) before clearing
                macok = all(s2.same(mem.load_bytes(s2, T, ('add', base, C(cx.foff('mapper_mac') + j)), 1)[0], ('in', 'MAC', j))
                            or compared_equal(s2, ('add', base, C(cx.foff('mapper_mac') + j)), ('in', 'MAC', j)) for j in range(6))
                genok = s2.same(cx.field(s2, base, 'generation', 2), GEN) or cx.gen_compared(s2, base)
                rep.check(macok and genok, 'R16.remove', 'key', 'an entry is invalidated without its address and generation having matched', function='session_table_remove', file=fnf)
                okc = s2.same(cnt, ('add', c0s, C(-1))) or (s2.same(cnt, c0s) and s2.dom(c0s).hi == 0)
                rep.check(okc, 'R16.remove', 'pairing', 'invalidating an entry changes count from %s to %s (must be exactly one less)' % (short(c0s), short(cnt)),
                          function='session_table_remove', file=fnf, sample={'remove': 'valid->0, count %s -> %s' % (short(c0s), short(cnt))})
            else:
                rep.check(s2.same(cnt, c0s), 'R16.remove', 'no-match-count', 'count changes (%s -> %s) in an iteration that invalidates nothing' % (short(c0s), short(cnt)),
                          function='session_table_remove', file=fnf)
    # the same obligations read off the final states (whatever the shape: own loop with break, or lookup-then-invalidate):
    # an entry whose valid byte was written is cleared, had matched the key, and count went down by exactly one
    I2, outs2 = cx.run('session_table_remove', lambda st: [Val(tp, T0), Val(mp, M0), Val(u16, GEN)], no_merge=True)
    for st, v in outs2:
        T = st.objs['T']
        cnt = cx.tfield(st, 'count')
        bases = []
        for kk, (w, t) in T.cells.items():
            if kk[0]:
                off = Lin(dict(kk[0]), kk[1])
                if (off.k - cx.eoff - cx.foff('valid')) % cx.esz == 0 and w == 1:
                    bases.append((off, st.canon(t)))
        if not bases:
            rep.check(st.same(cnt, CNT), 'R16.remove', 'final|no-match-count', 'remove leaves count %s on a path that invalidates nothing' % short(cnt),
                      function='session_table_remove', file=fnf)
            continue
        rep.check(len(bases) == 1, 'R16.remove', 'final|single', 'remove writes the valid byte of %d entries on one path' % len(bases), function='session_table_remove', file=fnf)
        off, val = bases[0]
        from ..terms import term_of_lin
        base = term_of_lin(Lin(dict(off.co), off.k - cx.foff('valid')))
        ncleared += 1
        rep.check(val == ZERO, 'R16.remove', 'final|cleared', 'remove stores %s into an entry\'s valid byte' % short(val), function='session_table_remove', file=fnf)
        macok = all(st.same(mem.load_bytes(st, T, ('add', base, C(cx.foff('mapper_mac') + j)), 1)[0], ('in', 'MAC', j))
                    or compared_equal(st, ('add', base, C(cx.foff('mapper_mac') + j)), ('in', 'MAC', j)) for j in range(6))
        genok = st.same(cx.field(st, base, 'generation', 2), GEN) or cx.gen_compared(st, base)
        rep.check(macok and genok, 'R16.remove', 'final|key', 'an entry is invalidated without its address and generation having matched', function='session_table_remove', file=fnf)
        okc = st.same(cnt, ('add', CNT, C(-1))) or (st.same(cnt, CNT) and st.dom(CNT).hi == 0)
        rep.check(okc, 'R16.remove', 'final|pairing', 'invalidating an entry changes count from %s to %s (must be exactly one less)' % (short(CNT), short(cnt)),
                  function='session_table_remove', file=fnf)
    rep.check(ncleared > 0, 'R16.remove', 'paths', 'remove never invalidates an entry', function='session_table_remove', file=fnf)

    clear_and_create(rep, cx)

    # ---------------- update_complete_status
    I, outs = cx.run('session_table_update_complete_status', lambda st: [Val(tp, T0)], no_merge=True)
    ubs(I, 'R16.status')
    lid = one_loop(I, 'session_table_update_complete_status')
    k = ('sym', 'iter:' + lid, 0, INF)
    base = ('add', ('mul', C(cx.esz), k), C(cx.eoff))
    for kind, trace, s2 in I.loop_info[lid]['iter_states'] or []:
        v = s2.dom(cx.field(s2, base, 'valid', 1))
        c = s2.dom(cx.field(s2, base, 'complete', 1))
        incomplete = v.lo >= 1 and c.hi == 0
        fine = v.hi == 0 or c.lo >= 1
        if kind in ('break', 'return'):
            rep.check(incomplete, 'R16.status', 'early-exit', 'the scan stops at an entry that is not known to be valid and incomplete (valid %s, complete %s)' % (v, c),
                      function='session_table_update_complete_status', file=fnf)
        else:
            rep.check(fine or incomplete, 'R16.status', 'iteration', 'an iteration does not distinguish valid/complete (valid %s, complete %s)' % (v, c),
                      function='session_table_update_complete_status', file=fnf)
    def counted_form(ac):
        """'all complete' = (n == 0) where n counts the valid incomplete entries: a local that starts at 0, is left alone by every
        iteration that knows its entry to be fine and is increased by every iteration that knows it to be valid and incomplete; the
        scan has no early exit and covers every slot."""
        t = ac
        if t[0] == 'lnot':
            return False
        if t[0] != 'eq':
            return False
        a, b = t[1], t[2]
        atom = a if b == ZERO else b if a == ZERO else None
        if atom is None or atom[0] != 'sym' or not str(atom[1]).startswith('hv:%s:L:' % lid):
            return False
        oid = str(atom[1])[len('hv:%s:' % lid):].rsplit('+', 1)[0]
        name = oid.split('.', 1)[1] if '.' in oid else None
        fnode_ = cx.ix.functions['session_table_update_complete_status']
        init0 = False
        from ..facts import walk as _walk
        for n_ in _walk(fnode_):
            if n_.get('kind') == 'VarDecl' and n_.get('name') == name and n_.get('inner'):
                e_ = n_['inner'][-1]
                while e_.get('kind') in ('ImplicitCastExpr', 'ParenExpr', 'CStyleCastExpr') and e_.get('inner'):
                    e_ = e_['inner'][0]
                init0 = e_.get('kind') == 'IntegerLiteral' and e_.get('value') in ('0', 0)
        if not init0:
            return False
        states = I.loop_info[lid]['iter_states'] or []
        if any(kind in ('break', 'return') for kind, _t, _s in states):
            return False
        seen_inc = False
        for kind, _t, s2 in states:
            o2 = s2.objs.get(oid)
            cell = o2.cells.get(((), 0)) if o2 is not None else None
            if cell is None:
                return False
            d_ = lin_of(s2.canon(cell[1])).add(lin_of(s2.canon(atom)), -1)
            v_ = s2.dom(cx.field(s2, base, 'valid', 1))
            c_ = s2.dom(cx.field(s2, base, 'complete', 1))
            if not d_.is_const():
                return False
            if d_.k == 0:
                if not (v_.hi == 0 or c_.lo >= 1):
                    return False
            elif 1 <= d_.k <= 255:
                if not (v_.lo >= 1 and c_.hi == 0):
                    return False
                seen_inc = True
            else:
                return False
        # the loop covers every slot (no slot is skipped): the index runs to the capacity
        covers = all(st_.dom(k).lo >= cx.cap for st_, _v in outs)
        return seen_inc and covers

    for st, v in outs:
        ac = cx.tfield(st, 'all_complete')
        kd = st.dom(k)
        vv = st.dom(cx.field(st, base, 'valid', 1)) if kd.hi < cx.cap else None
        if ac == ZERO:
            # some entry valid and incomplete must be known on this path
            cc = st.dom(cx.field(st, base, 'complete', 1))
            rep.check(vv is not None and vv.lo >= 1 and cc.hi == 0, 'R16.status', 'false-needs-witness', "'all complete' is set false on a path without a valid incomplete entry",
                      function='session_table_update_complete_status', file=fnf, sample={'all_complete': 0, 'witness_index': repr(kd)})
        elif ac == ONE:
            rep.check(kd.lo >= cx.cap, 'R16.status', 'true-needs-full-scan', "'all complete' is set true after scanning only up to index %s" % kd,
                      function='session_table_update_complete_status', file=fnf, sample={'all_complete': 1, 'scanned_to': repr(kd)})
        elif counted_form(ac):
            rep.ok('R16.status', sample={'all_complete': 'no pending entry counted', 'counter': short(ac)})
        else:
            rep.fail('R16.status', 'non-constant', "'all complete' becomes %s" % short(ac), function='session_table_update_complete_status', file=fnf)

    # ---------------- is_empty / all_complete
    I, outs = cx.run('session_table_is_empty', lambda st: [Val(tp, T0)])
    for st, v in outs:
        r = st.canon(v.t)
        d = st.dom(CNT)
        okq = (r == ONE and d.hi == 0) or (r == ZERO and d.lo >= 1) or r in (('eq', CNT, ZERO), ('eq', ZERO, CNT))
        rep.check(okq, 'R16.query', 'is_empty', "'empty' returns %s with count in %s" % (short(r), d), function='session_table_is_empty', file=fnf)
    I, outs = cx.run('session_table_all_complete', lambda st: [Val(tp, T0)])
    for st, v in outs:
        r = st.canon(v.t)
        want = st.canon(('in', 'T', cx.toff('all_complete')))
        okq = st.same(r, want) or r == ('ne', want, ZERO) or (st.dom(want).const() is not None and st.dom(r).const() == (1 if st.dom(want).const() else 0))
        rep.check(okq, 'R16.query', 'all_complete', "'all complete' query returns %s, not the recomputed flag" % short(r), function='session_table_all_complete', file=fnf)

    # ---------------- expiry in the tick
    expiry(rep, cx)
    rep.analysed.update({'capacity': cx.cap, 'entry_size': cx.esz, 'add_outcomes': kinds})



class _BufRep(object):
    """Collects the outcome of a group of obligations so that a second, shape-independent formulation can be tried before
    anything is reported."""

    def __init__(self):
        self.items = []

    def check(self, ok, rule, key, msg, **kw):
        self.items.append((bool(ok), rule, key, msg, kw))

    def fail(self, rule, key, msg, **kw):
        self.items.append((False, rule, key, msg, kw))

    def ok(self, rule, **kw):
        self.items.append((True, rule, None, '', kw))

    def failed(self):
        return [i for i in self.items if not i[0]]

    def flush(self, rep):
        for ok, rule, key, msg, kw in self.items:
            if key is None:
                rep.ok(rule, **kw)
            else:
                rep.check(ok, rule, key, msg, **kw)


def add_concrete(cx):
    """session_table_add decided without assumptions about its shape (lookup first and a second pass, or one fused pass that
    remembers the first free slot; index or pointer walk): the 16-slot loops are unrolled concretely on a fully symbolic table.
      (A) every outcome is one of: NULL with the table untouched and every slot known valid; the pointer to a slot known to be
          valid and to hold the key, with only sequence number and activity stamp written and count unchanged (refresh); the
          pointer to a slot known to have been free, now valid with the key, the sequence number, incomplete, both stamps the
          current clock, count + 1, all-complete false, nothing else written (insert);
      (B) with slot j valid and holding the key (j = 0..15) no outcome inserts and none returns NULL: a known session is refreshed.
    -> list of (ok, key, msg); raises AnalysisBroken when the loops were summarised instead of unrolled."""
    tp, mp, u16 = cx.ty('session_table *'), cx.ty('const uint8_t *'), cx.ty('unsigned short')
    T0, M0 = ('ptr', 'T', ZERO), ('ptr', 'MAC', ZERO)
    out = []

    def go(extra=None):
        E = Engine(cx.prog, port=PortModel())
        E.loop_info = {}
        E.max_loop_states = 400

        def setup(I, st):
            t = mk_obj(st, 'T', cx.trec.size, kind='heap', default='sym', heap=True)
            t.cells[((), cx.toff('count'))] = (1, CNT)
            mk_obj(st, 'MAC', 6, kind='heap', default='sym')
            if extra:
                extra(st)
            return [Val(tp, T0), Val(mp, M0), Val(u16, GEN), Val(u16, SEQ)]
        I, outs = run_entry(cx.prog, AUTOMATA_UNIT, 'session_table_add', setup, engine=E, name='session_table_add[unrolled]')
        if I.loop_info:
            raise AnalysisBroken('session_table_add: a scan was summarised, not unrolled')
        return I, outs

    def slot_of(st, r):
        if r[0] != 'ptr' or r[1] != 'T':
            return None
        o = st.canon(r[2])
        if not is_const(o):
            return None
        off = o[1] - cx.eoff
        if off < 0 or off % cx.esz or off // cx.esz >= cx.cap:
            return None
        return off // cx.esz

    def written(st, preset=()):
        T = st.objs['T']
        return sorted(k[1] for k in T.cells if not k[0] and k != ((), cx.toff('count')) and k[1] not in preset), [k for k in T.cells if k[0]]

    def classify(st, v, preset=()):
        """-> ('full'|'refresh'|'insert'|'bad', slot, [problems])"""
        r = st.canon(v.t)
        cnt = cx.tfield(st, 'count')
        wr, symw = written(st, preset)
        probs = []
        if symw:
            probs.append('stores at computed offsets %s' % symw[:2])
        if r == ZERO:
            if wr or not st.same(cnt, CNT):
                probs.append('returns NULL but wrote table bytes %s / count %s' % (wr[:4], short(cnt)))
            for i in range(cx.cap):
                if st.dom(cx.field(st, C(cx.eoff + i * cx.esz), 'valid', 1)).lo < 1:
                    probs.append('returns NULL although slot %d is not known to be in use' % i)
                    break
            return 'full', None, probs
        i = slot_of(st, r)
        if i is None:
            return 'bad', None, ['returns %s' % short(r)]
        base = C(cx.eoff + i * cx.esz)
        lo, hi = cx.eoff + i * cx.esz, cx.eoff + (i + 1) * cx.esz
        outside = [o for o in wr if not (lo <= o < hi) and o != cx.toff('all_complete')]
        if outside:
            probs.append('writes outside the returned slot (offsets %s)' % outside[:4])
        vwritten = (lo + cx.foff('valid')) in wr
        la = cx.field(st, base, 'last_activity_ts', 8)
        if not (la[0] == 'sym' and str(la[1]).startswith('clock.s.')):
            probs.append('activity stamp is %s, not the current clock' % short(la))
        if not st.same(cx.field(st, base, 'seq_number', 2), SEQ):
            probs.append('sequence number not stored')
        if not vwritten:
            # refresh: the slot is known valid with the key, key fields untouched, count / flag untouched
            if not cx.key_matches(st, base):
                probs.append('slot %d is returned without valid && address && generation having been established' % i)
            keyw = [o for o in wr if lo + cx.foff('mapper_mac') <= o < lo + cx.foff('mapper_mac') + 6 or o == lo + cx.foff('generation') or o == lo + cx.foff('complete')]
            if keyw:
                probs.append('refresh rewrites key / completion fields (offsets %s)' % keyw)
            if not st.same(cnt, CNT) or cx.toff('all_complete') in wr:
                probs.append('refresh changes count (%s) or the all-complete flag' % short(cnt))
            return 'refresh', i, probs
        # insert
        T = st.objs['T']
        was = ('in', 'T', lo + cx.foff('valid'))
        if st.dom(was).hi != 0:
            probs.append('slot %d is overwritten without having been established to be free' % i)
        if not cx.key_matches(st, base):
            probs.append('the new entry is not valid with the requested address and generation')
        if cx.field(st, base, 'complete', 1) != ZERO:
            probs.append('the new entry is not marked incomplete')
        cr = cx.field(st, base, 'created_ts', 8)
        if not (cr[0] == 'sym' and str(cr[1]).startswith('clock.s.')):
            probs.append('creation stamp is %s' % short(cr))
        if not st.same(cnt, ('add', CNT, C(1))):
            probs.append('count becomes %s, not count + 1' % short(cnt))
        if cx.tfield(st, 'all_complete') != ZERO:
            probs.append("'all complete' stays %s" % short(cx.tfield(st, 'all_complete')))
        return 'insert', i, probs

    I, outs = go()
    seen = {'full': 0, 'refresh': 0, 'insert': 0}
    for ob in I.obs.values():
        if not ob.ok:
            out.append((False, '%s|%s' % (ob.fn, ob.kind), ob.msg))
    for st, v in outs:
        kind, i, probs = classify(st, v)
        if kind in seen:
            seen[kind] += 1
        for p_ in probs:
            out.append((False, 'unrolled|%s|%s' % (kind, i), 'session_table_add (%s%s): %s' % (kind, '' if i is None else ', slot %d' % i, p_)))
        if not probs:
            out.append((True, 'unrolled|%s|%s' % (kind, i), ''))
    for k_, n_ in seen.items():
        out.append((n_ > 0, 'unrolled|paths|' + k_, 'session_table_add has no "%s" outcome' % k_))
    for j in range(cx.cap):
        base = cx.eoff + j * cx.esz
        preset = set([base + cx.foff('valid'), base + cx.foff('generation'), base + cx.foff('generation') + 1] + [base + cx.foff('mapper_mac') + b for b in range(6)])

        def extra(st, base=base):
            t = st.objs['T']
            t.cells[((), base + cx.foff('valid'))] = (1, C(1))
            for b in range(6):
                t.cells[((), base + cx.foff('mapper_mac') + b)] = (1, ('in', 'MAC', b))
            t.cells[((), base + cx.foff('generation'))] = (2, GEN)
        I2, outs2 = go(extra)
        bad = []
        for st, v in outs2:
            r = st.canon(v.t)
            i = slot_of(st, r)
            if r == ZERO:
                bad.append('returns NULL')
            elif i is None:
                bad.append('returns %s' % short(r))
            else:
                b2 = C(cx.eoff + i * cx.esz)
                if not st.same(cx.tfield(st, 'count'), CNT) or not cx.key_matches(st, b2):
                    bad.append('creates or returns slot %d (count %s)' % (i, short(cx.tfield(st, 'count'))))
        out.append((not bad, 'unrolled|known|slot%d' % j, 'with slot %d valid and holding the key, add does not simply refresh a session of that key: %s' % (j, '; '.join(bad[:3]))))
    return out


def clear_and_create(rep, cx):
    """R16.clear and R16.create (also decided on their own under C09: the table after a Reset equals a fresh one)."""
    fnf = 'lltdResponder/lltdAutomata.c'
    tp = cx.ty('session_table *')
    T0 = ('ptr', 'T', ZERO)

    def ubs(I, rule):
        for ob in I.obs.values():
            if not ob.ok:
                rep.fail(rule, '%s|%s' % (ob.fn, ob.kind), ob.msg, node=ob.node, function=ob.fn)
    # ---------------- clear
    I, outs = cx.run('session_table_clear', lambda st: [Val(tp, T0)])
    ubs(I, 'R16.clear')
    for st, v in outs:
        T = st.objs['T']
        bs = mem.load_bytes(st, T, C(cx.eoff), cx.cap * cx.esz)
        rep.check(all(st.canon(b) == ZERO for b in bs), 'R16.clear', 'entries', 'clear leaves %d entry bytes non-zero' % sum(1 for b in bs if st.canon(b) != ZERO),
                  function='session_table_clear', file=fnf)
        rep.check(cx.tfield(st, 'count') == ZERO, 'R16.clear', 'count', 'clear leaves count %s' % short(cx.tfield(st, 'count')), function='session_table_clear', file=fnf)
        rep.check(cx.tfield(st, 'all_complete') == ONE, 'R16.clear', 'flag', "clear leaves 'all complete' = %s" % short(cx.tfield(st, 'all_complete')), function='session_table_clear', file=fnf)

    # ---------------- create: the table a session starts from is the empty table, whatever the allocator returned
    I, outs = cx.run('session_table_create', lambda st: [])
    ubs(I, 'R16.create')
    nmade = 0
    for st, v in outs:
        t = st.canon(v.t)
        if t == ZERO:
            rep.check(any(e[0] == 'malloc-failed' for e in st.trace), 'R16.create', 'null', 'create returns NULL without an allocation failure',
                      function='session_table_create', file=fnf)
            continue
        if t[0] != 'ptr' or t[1] not in st.objs or not st.objs[t[1]].heap:
            rep.fail('R16.create', 'ret', 'create returns %s, not a freshly allocated table' % short(t), function='session_table_create', file=fnf)
            continue
        nmade += 1
        o = st.objs[t[1]]
        rep.check(st.prove_le(C(cx.trec.size), o.size), 'R16.create', 'size', 'create allocates %s bytes for a table of %d' % (short(o.size), cx.trec.size),
                  function='session_table_create', file=fnf)
        # (only the `valid` flags decide what the table holds: every reader tests them first)
        vs = [st.canon(mem.load_byte(st, o, (), cx.eoff + i * cx.esz + cx.foff('valid'))) for i in range(cx.cap)]
        bad = [i for i, b in enumerate(vs) if b != ZERO]
        rep.check(not bad, 'R16.create', 'entries', 'a freshly created table is not the empty table: the valid flag of %d slot(s) (first: slot %d) keeps what the allocator returned: '
                  'ghost sessions are found, counted out of step, refreshed instead of created' % (len(bad), bad[0] if bad else 0),
                  function='session_table_create', file=fnf, sample={'fresh_table_slots_invalid': len(vs)})
        cnt = st.canon(mem.load_scalar(st, o, C(cx.toff('count')), cx.ty('unsigned char')))
        flg = st.canon(mem.load_scalar(st, o, C(cx.toff('all_complete')), cx.ty('unsigned char')))
        rep.check(cnt == ZERO, 'R16.create', 'count', 'a freshly created table has count %s' % short(cnt), function='session_table_create', file=fnf)
        rep.check(flg == ONE, 'R16.create', 'flag', "a freshly created table has 'all complete' = %s" % short(flg), function='session_table_create', file=fnf)
    rep.check(nmade > 0, 'R16.create', 'paths', 'create never returns a table', function='session_table_create', file=fnf)


def check_find(rep, cx, rule):
    """The lookup returns an entry only if it is valid and address + generation are equal, and NULL only if no entry is.
    Decided without assumptions about the shape of the scan (direction, index or pointer walk, helper functions, how keys are
    compared): the 16-slot loop is unrolled concretely; "NULL only if nothing matches" by one run per slot with that slot
    holding the searched key.  If the unrolled run cannot be completed (a scan without early exit multiplies the paths), the
    inductive-summary formulation below is used instead."""
    try:
        check_find_concrete(rep, cx, rule)
        return
    except AnalysisBroken as e:
        rep.note('session_table_find: unrolled analysis not completed (%s); inductive formulation used' % e)
    check_find_summarised(rep, cx, rule)


def check_find_concrete(rep, cx, rule):
    fnf = 'lltdResponder/lltdAutomata.c'
    tp, mp, u16 = cx.ty('session_table *'), cx.ty('const uint8_t *'), cx.ty('unsigned short')
    T0, M0 = ('ptr', 'T', ZERO), ('ptr', 'MAC', ZERO)
    args = lambda st: [Val(tp, T0), Val(mp, M0), Val(u16, GEN), Val(u16, SEQ)]
    results = []

    def go(extra=None):
        E = Engine(cx.prog, port=PortModel())
        E.loop_info = {}
        import lltdsa.absint as _ab

        def setup(I, st):
            t = mk_obj(st, 'T', cx.trec.size, kind='heap', default='sym', heap=True)
            mk_obj(st, 'MAC', 6, kind='heap', default='sym')
            if extra:
                extra(st)
            return args(st)
        return run_entry(cx.prog, AUTOMATA_UNIT, 'session_table_find', setup, engine=E, name='session_table_find[unrolled]')
    I, outs = go()
    if I.loop_info:
        raise AnalysisBroken('the scan was summarised, not unrolled')
    fails = []
    hit = miss = 0
    for st, v in outs:
        r = st.canon(v.t)
        if r == ZERO:
            miss += 1
        elif r[0] == 'ptr' and r[1] == 'T' and is_const(st.canon(r[2])):
            hit += 1
            off = st.canon(r[2])[1] - cx.eoff
            okidx = off >= 0 and off % cx.esz == 0 and off // cx.esz < cx.cap
            fails.append((okidx, 'hit|index', 'returned pointer %s is not entries[k]' % short(r)))
            if okidx:
                fails.append((cx.key_matches(st, C(off + cx.eoff) if False else C(off + cx.eoff)), 'hit|key',
                              'the lookup returns entry %d without having established valid && address equal && generation equal' % (off // cx.esz)))
        else:
            fails.append((False, 'ret', 'lookup returns %s' % short(r)))
    fails.append((bool(hit and miss), 'paths', 'lookup has %d hit and %d miss outcomes' % (hit, miss)))
    # NULL only if no entry matches: with slot i valid and holding the key, no path may return NULL
    for i in range(cx.cap):
        base = cx.eoff + i * cx.esz

        def extra(st, base=base):
            t = st.objs['T']
            t.cells[((), base + cx.foff('valid'))] = (1, C(1))
            for j in range(6):
                t.cells[((), base + cx.foff('mapper_mac') + j)] = (1, ('in', 'MAC', j))
            t.cells[((), base + cx.foff('generation'))] = (2, GEN)
        I2, outs2 = go(extra)
        nulls = [1 for st, v in outs2 if st.canon(v.t) == ZERO]
        fails.append((not nulls, 'miss|slot%d' % i, 'with slot %d valid and holding the searched address and generation the lookup can still return NULL: it does not examine that slot (or rejects a matching entry)' % i))
    for ob in I.obs.values():
        if not ob.ok:
            rep.fail(rule, '%s|%s' % (ob.fn, ob.kind), ob.msg, node=ob.node, function=ob.fn)
    for ok, key, msg in fails:
        rep.check(ok, rule, key, msg, function='session_table_find', file=fnf)


def check_find_summarised(rep, cx, rule):
    """The lookup scans all slots and returns an entry only if it is valid and address + generation are equal."""
    fnf = 'lltdResponder/lltdAutomata.c'
    tp, mp, u16 = cx.ty('session_table *'), cx.ty('const uint8_t *'), cx.ty('unsigned short')
    T0, M0 = ('ptr', 'T', ZERO), ('ptr', 'MAC', ZERO)

    def ubs(I, r):
        for ob in I.obs.values():
            if not ob.ok:
                rep.fail(r, '%s|%s' % (ob.fn, ob.kind), ob.msg, node=ob.node, function=ob.fn)
    I, outs = cx.run('session_table_find', lambda st: [Val(tp, T0), Val(mp, M0), Val(u16, GEN), Val(u16, SEQ)])
    ubs(I, rule)
    lid = one_loop(I, 'session_table_find')
    hit = miss = 0
    for st, v in outs:
        r = st.canon(v.t)
        if r == ZERO:
            miss += 1
            k = ('sym', 'iter:' + lid, 0, INF)
            rep.check(st.dom(k).lo >= cx.cap, rule, 'miss|full-scan', 'the lookup gives up after index %s without having scanned all %d entries' % (st.dom(k), cx.cap),
                      function='session_table_find', file=fnf)
        elif r[0] == 'ptr' and r[1] == 'T':
            hit += 1
            rep.check(cx.key_matches(st, r[2]), rule, 'hit|key', 'the lookup returns entry at %s without having established valid && address equal && generation equal' % short(r[2]),
                      function='session_table_find', file=fnf, sample={'returns': short(r)})
            l = lin_of(r[2])
            rep.check(l.k == cx.eoff and list(l.co.values()) == [cx.esz], rule, 'hit|index', 'returned pointer %s is not entries[k]' % short(r), function='session_table_find', file=fnf)
        else:
            rep.fail(rule, 'ret', 'lookup returns %s' % short(r), function='session_table_find', file=fnf)
    rep.check(hit and miss, rule, 'paths', 'lookup has %d hit and %d miss outcomes' % (hit, miss), function='session_table_find', file=fnf)
    ind = I.loop_info[lid]['induction']
    rep.check(sorted(ind.values()) == [1], rule, 'index-step', 'lookup index does not advance by 1 (%s)' % ind, function='session_table_find', file=fnf)



def one_loop(I, fname):
    l = [x for x in I.loop_info if x.startswith(fname + '#')]
    if len(l) != 1:
        raise AnalysisBroken('%s: expected exactly one loop, found %s' % (fname, l))
    return l[0]


def callers_of(ix, name):
    out = set()
    for fname, fn in ix.functions.items():
        for n in walk(fn):
            if n.get('kind') == 'CallExpr' and n.get('inner'):
                c = n['inner'][0]
                while c.get('kind') in ('ImplicitCastExpr', 'ParenExpr'):
                    c = c['inner'][0]
                if c.get('kind') == 'DeclRefExpr' and c.get('referencedDecl', {}).get('name') == name:
                    out.add(fname)
    return out


def writer_module(ix):
    """The table API, the tick, and static helpers all of whose callers belong to that set."""
    callers = {}
    for fname, fn in ix.functions.items():
        for n in walk(fn):
            if n.get('kind') == 'CallExpr' and n.get('inner'):
                c = n['inner'][0]
                while c.get('kind') in ('ImplicitCastExpr', 'ParenExpr'):
                    c = c['inner'][0]
                if c.get('kind') == 'DeclRefExpr':
                    callers.setdefault(c.get('referencedDecl', {}).get('name'), set()).add(fname)
    module = set(WRITERS_OK)
    grew = True
    while grew:
        grew = False
        for fname, fn in ix.functions.items():
            if fname not in module and fn.get('storageClass') == 'static' and callers.get(fname) and callers[fname] <= module:
                module.add(fname)
                grew = True
    return module


def writers(rep, prog):
    fields = {'valid': 'session_entry', 'count': 'session_table', 'all_complete': 'session_table', 'last_activity_ts': 'session_entry'}
    n = 0
    for ix in prog.index.values():
        module = writer_module(ix)
        for fname, fn in ix.functions.items():
            for nd in walk(fn):
                lhs = None
                if nd.get('kind') in ('BinaryOperator', 'CompoundAssignOperator') and nd.get('opcode', '').endswith('=') and nd.get('opcode') not in ('==', '!=', '<=', '>='):
                    lhs = nd['inner'][0]
                elif nd.get('kind') == 'UnaryOperator' and nd.get('opcode') in ('++', '--'):
                    lhs = nd['inner'][0]
                if lhs is None:
                    continue
                while lhs.get('kind') == 'ParenExpr':
                    lhs = lhs['inner'][0]
                if lhs.get('kind') == 'MemberExpr' and lhs.get('name') in fields:
                    rp = ix.field_parent.get(lhs.get('referencedMemberDecl'))
                    if rp and rp[0].name.replace('struct ', '') == fields[lhs['name']]:
                        n += 1
                        if lhs['name'] == 'last_activity_ts':
                            add_module = {'session_table_add'} | set(f for f in module if f not in WRITERS_OK and callers_of(ix, f) <= {'session_table_add'})
                            rep.check(fname in add_module, 'R16.a', 'writer|%s|last_activity_ts' % fname,
                                      'function %s writes a session\'s activity stamp; only session_table_add (from the clock) may' % fname, node=nd, function=fname)
                            continue
                        rep.check(fname in module, 'R16.a', 'writer|%s|%s' % (fname, lhs['name']),
                                  'function %s writes %s.%s outside the session-table API' % (fname, fields[lhs['name']], lhs['name']), node=nd, function=fname)
    if n < 8:
        rep.broke('only %d writes to the bookkeeping fields found' % n)


def expiry(rep, cx):
    fnf = 'lltdResponder/lltdAutomata.c'
    ix = cx.ix

    def upd_summary(I, st, args, node, rty):
        st.effect(('recompute', st.canon(args[0].t)))
        return [(st, Val(rty, ZERO))]
    E = Engine(cx.prog, port=PortModel(), summaries={'session_table_update_complete_status': upd_summary})
    E.loop_info = {}
    E.keep_iter_states = True
    E.force_summary = True

    top = cx.foff('last_activity_ts') + 7

    def stamp_dom(atom):
        # invariant ingredient (established by add, see R16.add hit|activity / insert): activity stamps are past
        # clock readings, i.e. below 2^62 - the top byte of every entry's stamp is < 0x40, whatever the index
        if atom[0] == 'in' and (atom[1] == 'T' or str(atom[1]).startswith('region:T#')):
            off = atom[2] if isinstance(atom[2], tuple) else C(atom[2])
            l = lin_of(off)
            if (l.k - cx.eoff) % cx.esz == top and all(c % cx.esz == 0 for c in l.co.values()):
                return Dom(0, 0x3F)
        return None

    def setup(I, st):
        st.input_dom = stamp_dom
        t = mk_obj(st, 'T', cx.trec.size, kind='heap', default='sym', heap=True)
        t.cells[((), cx.toff('count'))] = (1, CNT)
        ap = ix.parse_type('automata *')
        return [Val(ap, ZERO), Val(ap, ZERO), Val(cx.ty('session_table *'), ('ptr', 'T', ZERO)), Val(cx.ty('const lltd_automata_tick_port *'), ZERO)]
    I, outs = run_entry(cx.prog, AUTOMATA_UNIT, 'automata_tick', setup, engine=E, name='automata_tick[expiry]')
    for ob in I.obs.values():
        if not ob.ok:
            rep.fail('R16.expiry', '%s|%s' % (ob.fn, ob.kind), ob.msg, node=ob.node, function=ob.fn)
    lids = sorted(I.loop_info)      # (in the tick itself or in a helper it was extracted into; the recomputation is summarised)
    if not lids:
        rep.fail('R16.expiry', 'no-sweep', 'the tick has no expiry sweep over the session table', function='automata_tick', file=fnf)
        return
    now_s = None
    dropped = kept = 0
    for l in lids:
        k = ('sym', 'iter:' + l, 0, INF)
        base = ('add', ('mul', C(cx.esz), k), C(cx.eoff))
        # the sweep is the loop that can invalidate an entry; a loop that only reads the table (a consistency count for a log
        # line) has no obligations here - R16.a (who-may-write) covers what it must not do
        def clears_(s2_):
            vc_ = s2_.objs['T'].cells.get(mem.off_key(s2_, ('add', base, C(cx.foff('valid')))))
            return vc_ is not None and s2_.canon(vc_[1]) == ZERO
        if not any(clears_(s2_) for _k, _t, s2_ in (I.loop_info[l]['iter_states'] or [])) and not any(m_.startswith('T+') for m_ in I.loop_info[l].get('modified', ())) \
                and 'T' not in (I.loop_info[l].get('smashed') or ()):
            continue
        for kind, trace, s2 in I.loop_info[l]['iter_states'] or []:
            T = s2.objs['T']
            vcell = T.cells.get(mem.off_key(s2, ('add', base, C(cx.foff('valid')))))
            cleared = vcell is not None and s2.canon(vcell[1]) == ZERO
            la = cx.field(s2, base, 'last_activity_ts', 8)
            clocks = [('sym', 'clock.s.%d' % i, 0, 1 << 63) for i in range(s2.tags.get('clk.s', 0))]
            cnt = cx.tfield(s2, 'count')
            lim = ('add', la, C(oracle.SESSION_EXPIRY_S))
            if cleared:
                dropped += 1
                late = any(s2.prove_lt(lim, c) for c in clocks)
                rep.check(late, 'R16.expiry', 'drop|condition', 'a session is dropped on a path where now > last activity + %d s is not established' % oracle.SESSION_EXPIRY_S,
                          function='automata_tick', file=fnf, sample={'expiry': 'now > last_activity + 60'})
                okc = s2.same(cnt, ('add', CNT, C(-1))) or (s2.same(cnt, CNT) and s2.dom(CNT).hi == 0)
                rep.check(okc, 'R16.expiry', 'drop|pairing', 'dropping an expired session leaves count = %s' % short(cnt), function='automata_tick', file=fnf)
            else:
                v = s2.dom(cx.field(s2, base, 'valid', 1))
                if v.lo >= 1:
                    kept += 1
                    fresh = any(s2.prove_le(c, lim) for c in clocks)
                    rep.check(fresh, 'R16.expiry', 'keep|condition', 'a valid session survives on a path where now <= last activity + %d s is not established (fresher ones must survive, idle ones go)'
                              % oracle.SESSION_EXPIRY_S, function='automata_tick', file=fnf)
                rep.check(s2.same(cnt, CNT), 'R16.expiry', 'keep|count', 'count changes (%s) in an iteration that drops nothing' % short(cnt), function='automata_tick', file=fnf)
    rep.check(dropped > 0, 'R16.expiry', 'paths', 'the expiry sweep never drops a session', function='automata_tick', file=fnf)
    # "a session idle for more than 60 s is removed by the next tick while fresher ones survive": one valid entry at a
    # fixed index with its stamp LA symbolic, every other entry invalid; entry assumption either now > LA + 60 or not
    LA = ('sym', 'entry.last_activity', 1, 1 << 61)
    for j in (0, cx.cap // 2, cx.cap - 1):
        for late in (True, False):
            E2 = Engine(cx.prog, port=PortModel(), summaries={'session_table_update_complete_status': upd_summary})

            def setup2(I, st, j=j, late=late):
                t = mk_obj(st, 'T', cx.trec.size, kind='heap', default='zero', heap=True)
                t.zeroed_n = t.size
                t.cells[((), cx.toff('count'))] = (1, C(1))
                b = cx.eoff + j * cx.esz
                t.cells[((), b + cx.foff('valid'))] = (1, C(1))
                t.cells[((), b + cx.foff('last_activity_ts'))] = (8, LA)
                clk = ('sym', 'clock.s.0', 0, 1 << 63)
                lim = lin_of(('add', LA, C(oracle.SESSION_EXPIRY_S)))
                if late:
                    f = lim.add(lin_of(clk), -1)
                    f.k += 1                       # LA + 60 + 1 <= now
                else:
                    f = lin_of(clk).add(lim, -1)   # now <= LA + 60
                st.add_fact(f)
                ap = ix.parse_type('automata *')
                return [Val(ap, ZERO), Val(ap, ZERO), Val(cx.ty('session_table *'), ('ptr', 'T', ZERO)), Val(cx.ty('const lltd_automata_tick_port *'), ZERO)]
            I2, o2 = run_entry(cx.prog, AUTOMATA_UNIT, 'automata_tick', setup2, engine=E2, name='automata_tick[entry %d %s]' % (j, 'late' if late else 'fresh'))
            for st, v in o2:
                T = st.objs['T']
                val = st.canon(mem.load_scalar(st, T, C(cx.eoff + j * cx.esz + cx.foff('valid')), cx.ty('unsigned char')))
                cnt = cx.tfield(st, 'count')
                if late:
                    rep.check(val == ZERO and cnt == ZERO, 'R16.expiry', 'late|dropped',
                              'entry %d idle for more than %d s is still valid=%s / count=%s after the tick' % (j, oracle.SESSION_EXPIRY_S, short(val), short(cnt)),
                              function='automata_tick', file=fnf, sample={'entry': j, 'idle': '> 60 s', 'after_tick': 'removed'})
                else:
                    rep.check(val == ONE and cnt == ONE, 'R16.expiry', 'fresh|kept',
                              'entry %d active within the last %d s is dropped by the tick (valid=%s, count=%s)' % (j, oracle.SESSION_EXPIRY_S, short(val), short(cnt)),
                              function='automata_tick', file=fnf, sample={'entry': j, 'idle': '<= 60 s', 'after_tick': 'kept'})
    # several sessions at one tick: every idle one goes and every fresher one survives, whatever else the sweep dropped
    # before reaching it (two valid entries at fixed indices, each independently idle or fresh; all other slots free)
    LB = ('sym', 'entry2.last_activity', 1, 1 << 61)
    for j1, j2 in ((0, 1), (0, cx.cap - 1), (cx.cap // 2, cx.cap - 1)):
        for late1 in (True, False):
            for late2 in (True, False):
                E3 = Engine(cx.prog, port=PortModel(), summaries={'session_table_update_complete_status': upd_summary})

                def setup3(I, st, j1=j1, j2=j2, late1=late1, late2=late2):
                    t = mk_obj(st, 'T', cx.trec.size, kind='heap', default='zero', heap=True)
                    t.zeroed_n = t.size
                    t.cells[((), cx.toff('count'))] = (1, C(2))
                    clk = ('sym', 'clock.s.0', 0, 1 << 63)
                    for j, stamp, late in ((j1, LA, late1), (j2, LB, late2)):
                        b = cx.eoff + j * cx.esz
                        t.cells[((), b + cx.foff('valid'))] = (1, C(1))
                        t.cells[((), b + cx.foff('last_activity_ts'))] = (8, stamp)
                        lim = lin_of(('add', stamp, C(oracle.SESSION_EXPIRY_S)))
                        if late:
                            f = lim.add(lin_of(clk), -1)
                            f.k += 1
                        else:
                            f = lin_of(clk).add(lim, -1)
                        st.add_fact(f)
                    ap = ix.parse_type('automata *')
                    return [Val(ap, ZERO), Val(ap, ZERO), Val(cx.ty('session_table *'), ('ptr', 'T', ZERO)), Val(cx.ty('const lltd_automata_tick_port *'), ZERO)]
                I3, o3 = run_entry(cx.prog, AUTOMATA_UNIT, 'automata_tick', setup3, engine=E3,
                                   name='automata_tick[entries %d %s, %d %s]' % (j1, 'late' if late1 else 'fresh', j2, 'late' if late2 else 'fresh'))
                for st, v in o3:
                    T = st.objs['T']
                    want_cnt = (0 if late1 else 1) + (0 if late2 else 1)
                    cnt = cx.tfield(st, 'count')
                    for j, late in ((j1, late1), (j2, late2)):
                        val = st.canon(mem.load_scalar(st, T, C(cx.eoff + j * cx.esz + cx.foff('valid')), cx.ty('unsigned char')))
                        rep.check(val == (ZERO if late else ONE), 'R16.expiry', 'pair|%s' % ('late-dropped' if late else 'fresh-kept'),
                                  'two sessions (slots %d: %s, %d: %s) at one tick: slot %d is %s afterwards' % (
                                      j1, 'idle > 60 s' if late1 else 'fresh', j2, 'idle > 60 s' if late2 else 'fresh', j, 'still valid' if late else 'dropped'),
                                  function='automata_tick', file=fnf)
                    rep.check(cnt == C(want_cnt), 'R16.expiry', 'pair|count', 'two sessions (slots %d: %s, %d: %s) at one tick leave count = %s, expected %d' % (
                        j1, 'idle' if late1 else 'fresh', j2, 'idle' if late2 else 'fresh', short(cnt), want_cnt), function='automata_tick', file=fnf)
    for st, v in outs:
        rec = [e for e in st.trace if e[0] == 'recompute']
        rep.check(bool(rec), 'R16.expiry', 'recompute-after', "the expiry sweep is not followed by the 'all complete' recomputation", function='automata_tick', file=fnf)


def slot_known_free(st, cx, base):
    """valid == 0 known for the slot at `base` through a refinement of the region/input atom read there."""
    want = lin_of(st.canon(('add', base, C(cx.foff('valid'))))).key()
    for t, d in st.env.items():
        if t[0] == 'in' and (t[1] == 'T' or str(t[1]).startswith('region:T#')) and d.hi == 0:
            off = t[2] if isinstance(t[2], tuple) else C(t[2])
            if lin_of(off).key() == want:
                return True
    for a, b in st.eq.items():
        if st.canon(b) == ZERO and a[0] == 'in' and (a[1] == 'T' or str(a[1]).startswith('region:T#')):
            off = a[2] if isinstance(a[2], tuple) else C(a[2])
            if lin_of(off).key() == want:
                return True
    return False
