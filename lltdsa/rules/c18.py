"""C18 — platform faults degrade service gracefully and never wedge the responder.

Faults are modelled in the port contract, not enumerated: every allocation may
fail on every path (stronger than "fail the k-th allocation"), every transmit
may be refused, every getter may fail, get_mtu may fail (fallback mode).  All
resulting paths of all entry points must discharge their safety obligations,
leave nothing allocated that is not retained state, and the constructors must
report failure by returning NULL."""
from ..common import Report, finish
from . import safety

FAULT_KINDS = ('null-deref', 'wild-deref', 'use-after-free', 'bad-free', 'bounds', 'uninit-read', 'uninit-copy', 'dangling', 'div-zero', 'loop-leak', 'retry-unbounded')


def run(tier):
    rep = Report('C18', tier)
    rep.rule('R18.a', 'no safety obligation fails on any path with failing allocations / refused transmits / failing getters (all entry points)', floor=3000)
    rep.rule('R18.b', 'every buffer obtained while handling a frame is released on every fault path (nothing live at exit except retained state)', floor=50)
    rep.rule('R18.c', 'MTU cannot be obtained: the 1500-byte fallback is in force before any use (all obligations hold in fallback mode; buffers are sized 1500)', floor=100)
    rep.rule('R18.e.2', 'after any fault, a topology Reset leaves every field of the record fresh or provably dead (the entry record is arbitrary, so every post-fault state is covered)', floor=8)
    rep.rule('R18.e.3', 'after such a Reset nothing transmitted and no decision depends on pre-Reset (post-fault) state: behaviour equals a freshly started responder', floor=20)
    rep.rule('R18.d', 'constructors: an allocation failure yields NULL (or a usable automaton without its optional block), never a dereference, never a leak', floor=6)
    rep.rule('R18.g', 'the observation list stays well formed on every fault path: no store into the link field of an observation already in the list (an out-of-memory fallback that recycles a node must unlink it first)', floor=100)
    rep.rule('R18.h', 'a station whose session table could not be allocated runs as with an empty table: the tick silences and resets the enumerator (obligation R12.d)', floor=3)
    rep.rule('R18.f', 'diagnostics on fault paths: every printf-like call has a literal format whose conversions match its arguments', floor=40)
    res = safety.run_all(kinds=['frame.mtu', 'frame.fallback', 'ctors', 'api', 'automata'] + ['tick:%d:%d' % (m, e) for m in range(3) for e in range(3)])
    for entry, r in sorted(res.items()):
        rule = 'R18.c' if entry == 'frame.fallback' else 'R18.a'
        for o in r['obs']:
            if o['kind'] not in FAULT_KINDS:
                continue
            if o['ok']:
                rep.ok(rule)
            else:
                rep.fail(rule, '%s|%s|%s' % (entry.split(':')[0], o['fn'], o['kind']), '[%s] %s' % (entry, o['msg']), file=o['file'], line=o['line'], function=o['fn'])
    nfault = 0
    for entry in ('frame.mtu', 'frame.fallback'):
        for h in res[entry]['heap']:
            if h['faults']:
                nfault += 1
            rep.check(not h.get('link_stores'), 'R18.g', '%s|link-rewritten' % entry,
                      'handling a frame (ToS %s, opcode %s; allocations may fail on this path) stores into the link field of an observation that is already in the list '
                      '(offset/size %s): the list is corrupted (a node cut off, a cycle, or a released node still linked) and the next Query or Reset walks it'
                      % (h['tos'], h['op'], h.get('link_stores')), file='lltdResponder/lltdBlock.c', function='parseFrame')
            rep.check(not h['leaked'], 'R18.b', '%s|leak|%s' % (entry, ','.join(h['leaked'])),
                      'handling a frame (ToS %s, opcode %s, %d failed allocation(s)) returns with %s still allocated and not retained'
                      % (h['tos'], h['op'], h['faults'], h['leaked']), file='lltdResponder/lltdBlock.c', function='parseFrame',
                      sample={'cell': '%s x %s' % (h['tos'], h['op']), 'failed_allocations': h['faults'], 'live_at_exit': h['retained']} if h['faults'] and len(rep.samples) < 10 else None)
    # fallback sizes
    # (the MTU-sized response buffers are recognised as what is handed to send_frame in the Discover / Query / QueryLargeTlv
    #  cells - wherever the allocation itself sits)
    for h in res['frame.fallback']['heap']:
        if not (h['region'].endswith(('.discover', '.query', '.qlt'))):
            continue
        for site, size in h['malloc_sizes']:
            if site in h.get('sent_objs', ()):
                rep.check(size == '[1500,1500]', 'R18.c', 'fallback|size|%s' % h['region'], 'with the MTU unavailable, the response buffer of cell %s (%s) is allocated with %s bytes instead of the '
                          '1500-byte fallback' % (h['region'], site, size), file='lltdResponder/lltdBlock.c', function=site.split(':')[1].split('#')[0])
    for c in res['ctors']['ctors']:
        if c['failed_allocs']:
            ok = (c['returns_null'] or c['returned'].startswith('&heap:')) and not c['leaked']
            rep.check(ok, 'R18.d', 'ctor|%s' % c['ctor'], '%s with %d failed allocation(s) returns %s and leaks %s' % (c['ctor'], c['failed_allocs'], c['returned'], c['leaked']),
                      file='lltdResponder/lltdAutomata.c', function=c['ctor'], sample=c if len(rep.samples) < 16 else None)
        else:
            rep.check(not c['returns_null'], 'R18.d', 'ctor|%s|ok-path' % c['ctor'], '%s returns NULL although every allocation succeeded' % c['ctor'],
                      file='lltdResponder/lltdAutomata.c', function=c['ctor'])
    # "after the fault clears and a Reset is received it behaves exactly like a freshly started responder": the Reset
    # analysis of C09 starts from an arbitrary interface record, hence from every state a fault path can leave behind
    from .c09 import recovery
    from .automata_common import load_core
    from .fmtcheck import check_formats
    # fault paths are where the warnings are logged: a conversion reading a missing or wrong-typed argument crashes exactly there
    rep.analysed['printf_like_calls'] = check_formats(rep, load_core('systemd'), 'R18.f')
    from .c12 import decide as tick_decide
    from .c07 import RuleView
    tick_decide(RuleView(rep, {'R12.d': 'R18.h'}), load_core('systemd'))
    rinfo = recovery(rep, load_core('systemd'), 'R18.e')
    rep.analysed.update({'fault_paths_of_parseFrame': nfault, 'entries': sorted(res), 'reset_recovery': rinfo})
    return finish(rep, 'proof',
                  'Fault model in the port contract (any allocation may return NULL, any transmit may be refused, any getter may fail, get_mtu may fail): every path of every entry point '
                  'under that model discharges its safety obligations, releases its per-request buffers and sizes buffers from the 1500 fallback; constructors return NULL on failure. '
                  'This subsumes "fail the k-th allocation for every k". Recovery after a Reset is C09 (which is insensitive to how the state was reached).',
                  'abstract interpretation with a non-deterministic fault model; typestate of heap objects at exit', exhaustive=True)
