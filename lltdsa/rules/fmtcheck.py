"""Format/argument agreement at every call of a variadic printf-like function of the core
(the port's logging functions carry no format attribute, so the compiler checks nothing).

For every call whose callee is variadic and whose last fixed parameter is a `const char *` format:
the format must be a string literal (or a conditional of literals); every conversion must find an
argument, and the argument's promoted type must be of the class and width the conversion reads
(%s -> pointer to char, %p -> pointer, integer conversions -> integer of the width given by the
length modifier).  A mismatch is undefined behaviour inside the port's vfprintf (typically a wild
read through an integer taken as `char *`)."""
import json
import re

from ..facts import walk, fn_body, where

CONV = re.compile(r'%(?P<flags>[-+ #0\']*)(?P<width>\*|\d+)?(?:\.(?P<prec>\*|\d*))?(?P<len>hh|h|ll|l|z|j|t|L|q)?(?P<conv>[diouxXcsPpeEfgGaAnm%])')


def strip(e):
    while e.get('kind') in ('ImplicitCastExpr', 'ParenExpr', 'CStyleCastExpr', 'ConstantExpr') and e.get('inner'):
        e = e['inner'][-1]
    return e


def literals(e):
    """-> list of format strings the expression can evaluate to, or None when it is not a literal."""
    e = strip(e)
    k = e.get('kind')
    if k == 'StringLiteral':
        try:
            return [json.loads(e['value'])]
        except Exception:
            v = e['value']
            return [bytes(v[1:-1], 'utf-8').decode('unicode_escape')]
    if k == 'ConditionalOperator':
        a, b = literals(e['inner'][1]), literals(e['inner'][2])
        return None if a is None or b is None else a + b
    if k == 'PredefinedExpr' and e.get('inner'):
        return literals(e['inner'][0])
    return None


def conversions(fmt):
    out = []
    for m in CONV.finditer(fmt):
        c = m.group('conv')
        if c in '%m':
            continue
        if m.group('width') == '*':
            out.append(('*', 'int', m.group(0)))
        if m.group('prec') == '*':
            out.append(('*', 'int', m.group(0)))
        out.append((c, m.group('len') or '', m.group(0)))
    return out


def check_formats(rep, prog, rule, units=None):
    """One instance per conversion of every printf-like call in the given units (default: all units of prog)."""
    calls = 0
    for ix in prog.index.values():
        if units is not None and ix.unit.path not in units:
            continue
        word = ix.sizeof(ix.parse_type('unsigned long'))
        for fname, fn in sorted(ix.functions.items()):
            body = fn_body(fn)
            if body is None:
                continue
            for n in walk(body):
                if n.get('kind') != 'CallExpr' or not n.get('inner'):
                    continue
                callee = strip(n['inner'][0])
                if callee.get('kind') != 'DeclRefExpr':
                    continue
                rd = callee.get('referencedDecl') or {}
                qt = (rd.get('type') or {}).get('qualType', '')
                if not qt.rstrip().endswith('...)'):
                    continue
                params = qt[qt.index('(') + 1:qt.rindex(')')].split(',')
                nfixed = len(params) - 1
                if nfixed < 1 or 'char' not in params[nfixed - 1]:
                    continue
                args = n['inner'][1:]
                if len(args) < nfixed:
                    continue
                calls += 1
                key = '%s|%s' % (fname, rd.get('name'))
                lits = literals(args[nfixed - 1])
                if lits is None:
                    rep.fail(rule, key + '|non-literal', 'the format handed to %s is not a string literal: it cannot be matched against its arguments' % rd.get('name'),
                             node=n, function=fname)
                    continue
                var = args[nfixed:]
                for fmt in lits:
                    convs = conversions(fmt)
                    for i, (c, ln, text) in enumerate(convs):
                        ikey = '%s|%s#%d' % (key, re.sub(r'\s+', ' ', fmt)[:40], i)
                        if i >= len(var):
                            rep.fail(rule, ikey, 'format %r: conversion #%d (%s) has no argument (%d supplied): the callee reads an argument that was never passed'
                                     % (fmt, i + 1, text, len(var)), node=n, function=fname)
                            continue
                        a = var[i]
                        t = ix.parse_type((a.get('type') or {}).get('qualType', 'int'))
                        isptr = t.kind in ('ptr', 'arr', 'fn')
                        if c in 'sSpPn':
                            ok = isptr
                            if ok and c in 'sS' and t.to is not None and t.to.kind == 'int':
                                ok = t.to.size == 1
                            elif ok and c in 'sS' and t.to is not None and t.to.kind not in ('int', 'void'):
                                ok = False
                            want = 'a pointer to char' if c in 'sS' else 'a pointer'
                        elif c in 'eEfgGaA':
                            ok = t.kind == 'float'
                            want = 'a double'
                        else:
                            size = {'': 4, 'h': 4, 'hh': 4, 'int': 4, 'l': word, 'z': word, 't': word, 'll': 8, 'j': 8, 'q': 8, 'L': 8}.get(ln, 4)
                            ok = (not isptr) and t.kind in ('int', 'bool', 'enum') and max(t.size, 4) == size
                            want = 'a %d-byte integer' % size
                        rep.check(ok, rule, ikey, 'format %r: conversion #%d (%s) reads %s but argument %d has type %s'
                                  % (fmt, i + 1, text, want, i + 1, (a.get('type') or {}).get('qualType')), node=n, function=fname)
    return calls
