"""lltd_state_for_iface decided on its own (it walks an unbounded list): lookup by
context pointer, a miss allocates, zero-fills the whole record and links it.
Used as a verified summary by the dispatcher runs (C09 step 1, C17 R17.2, C18a)."""
from ..facts import AnalysisBroken
from ..engine import Engine, run_entry, mk_obj
from ..absint import Val
from ..port import PortModel
from ..facts import WORD as W
from ..terms import C, ZERO, short, is_const
from .. import mem
from .frame_common import BLOCK_UNIT


def check_state_for_iface(rep, prog, rule):
    from .frame_common import state_lookup_name, state_lookup_unit
    LUNIT = state_lookup_unit(prog)
    ix = prog.unit(LUNIT)
    from .frame_common import iface_list_name
    LISTN = iface_list_name(prog)
    LOOKUP = state_lookup_name(prog)       # identified by its role (called from parseFrame, returns the record), not by its name
    fn = ix.functions[LOOKUP]
    srec = ix.parse_type('lltd_iface_state').rec
    from .frame_common import record_field
    ctx_off, next_off = record_field(srec, 'iface_ctx')[1], record_field(srec, 'next')[1]

    def setup(I, st):
        mk_obj(st, 'ext:ctx', 1, kind='ext', default='unknown')
        recs = mk_obj(st, 'RECS', srec.size, kind='heap', default='sym', heap=True, weak=True)
        recs.ptr_fields = {next_off: (ZERO, ('ptr', 'RECS', ZERO))}
        g = mk_obj(st, 'g:' + LISTN, W, kind='global', default='unknown')
        g.cells[((), 0)] = (W, ('pset', ('sym', 'g_iface_states@entry', 0, 0), (ZERO, ('ptr', 'RECS', ZERO))))
        st.tags['known_globals'] = ('g:' + LISTN,)
        args = [Val(ix.parse_type('void *'), ('ptr', 'ext:ctx', ZERO))]
        # further parameters (a `create` flag, a hint): any value the type admits
        from ..facts import fn_params
        for p_ in fn_params(fn)[1:]:
            pty = ix.parse_type(p_['type']['qualType'])
            if pty.kind != 'int':
                raise AnalysisBroken('%s: parameter %s of type %s cannot be modelled' % (LOOKUP, p_.get('name'), p_['type']['qualType']))
            lo_, hi_ = pty.minmax()
            args.append(Val(pty, ('sym', 'arg:%s' % p_.get('name'), lo_, hi_)))
        return args
    from ..engine import Engine
    E = Engine(prog, port=PortModel(), entry_name=LOOKUP)
    E.loop_info = {}
    E.keep_iter_states = True
    I, outs = run_entry(prog, LUNIT, LOOKUP, setup, engine=E, name=LOOKUP)
    want_ctx = ('ptr', 'ext:ctx', ZERO)

    def knows_key(s2):
        return any(str(a[1]).startswith('weakptr:RECS+%d#' % ctx_off) and s2.canon(b) == want_ctx for a, b in s2.eq.items() if a[0] == 'sym')
    # every early exit of the search (in the lookup itself or in a helper it was split into) rests on the comparison
    early = [s2 for info in I.loop_info.values() for kind, trace, s2 in (info.get('iter_states') or []) if kind in ('return', 'break')]
    early_ok = bool(early) and all(knows_key(s2) for s2 in early)
    kinds = {'found': 0, 'null': 0, 'fresh': 0}
    for st, v in outs:
        t = st.canon(v.t)
        if t == ZERO:
            kinds['null'] += 1
            failed = any(e[0] == 'malloc-failed' for e in st.trace)
            rep.check(failed, rule, 'state_for_iface|null', '%s returns NULL without an allocation failure' % LOOKUP,
                      node=fn, function=LOOKUP)
        elif t[0] == 'ptr' and t[1] == 'RECS':
            kinds['found'] += 1
            # the hit must rest on the record's context having been compared equal to the caller's
            want = ('ptr', 'ext:ctx', ZERO)
            # (the final state may have lost the equality where hits at different list positions were merged)
            ok = knows_key(st) or early_ok
            rep.check(ok, rule, 'state_for_iface|hit-key', 'the lookup returns a record without its context having been compared equal to the caller\'s context '
                      '(another interface\'s state could be handed out)', node=fn, function=LOOKUP)
        elif t[0] == 'ptr' and st.objs.get(t[1]) is not None and st.objs[t[1]].heap:
            kinds['fresh'] += 1
            o = st.objs[t[1]]
            okz = True
            bad = []
            for off in range(srec.size):
                if ctx_off <= off < ctx_off + 8 or next_off <= off < next_off + 8:
                    continue
                b = st.canon(mem.load_byte(st, o, (), off))
                if b != ZERO:
                    okz = False
                    bad.append(off)
            rep.check(okz and st.prove_le(C(srec.size), o.size), rule, 'state_for_iface|zero',
                      'a freshly created interface record is not fully zero-initialised (bytes %s)' % bad[:8], node=fn, function=LOOKUP,
                      sample={'fresh_record_bytes_zero': srec.size - 16})
            c = st.canon(mem.load_scalar(st, o, C(ctx_off), ix.parse_type('void *')))
            rep.check(c == ('ptr', 'ext:ctx', ZERO), rule, 'state_for_iface|ctx', 'fresh record is keyed by %s, not by the caller\'s context' % short(c),
                      node=fn, function=LOOKUP)
            g = st.canon(mem.load_scalar(st, st.objs['g:' + LISTN], ZERO, ix.parse_type('void *')))
            rep.check(g == t, rule, 'state_for_iface|link', 'fresh record is not linked into the list head', node=fn, function=LOOKUP)
        else:
            rep.fail(rule, 'state_for_iface|ret', '%s returns %s' % (LOOKUP, short(t)), node=fn, function=LOOKUP)
    # the lookup hands out existing records untouched: a store into one (recycling it for another interface, wiping it) loses
    # what it owns (observation list, cached icon) and mixes two interfaces' state.  That includes the link field: records are
    # never released, the list is only ever extended at its head - re-linking existing records (move-to-front) can drop
    # records, with everything they own, and whether a given surgery does is beyond this analysis (no shape analysis).
    nw = 0
    from .frame_common import effects
    seen_w = set()
    for st, v in outs:
        for e, _ctx in effects(st, 'weak-store'):          # (also those inside the iterations of the search loop)
            if e[1] != 'RECS' or e in seen_w:
                continue
            seen_w.add(e)
            off, n = e[2], e[3]
            nw += 1
            if off is not None and next_off <= off and off + n <= next_off + W:
                rep.fail(rule, 'state_for_iface|relinks-existing', '%s stores into the link field of an already existing interface record: records are only ever added at the '
                         'head of the list; a re-linked list can lose records - and with them the observations and the mapper state of their interfaces' % LOOKUP,
                         node=fn, function=LOOKUP)
                continue
            rep.fail(rule, 'state_for_iface|writes-existing', '%s stores into an already existing interface record (bytes %s+%d): the record\'s observation list and cached '
                     'icon are owned through it and its state belongs to another interface' % (LOOKUP, 'at a computed offset' if off is None else off, n), node=fn, function=LOOKUP)
    if not nw:
        rep.ok(rule, sample={'existing_records_written_by_lookup': 0})
    for k, n in kinds.items():
        if n == 0:
            rep.fail(rule, 'state_for_iface|paths|' + k, '%s has no "%s" outcome (lookup hit / allocation failure / fresh record expected)' % (LOOKUP, k),
                     node=fn, function=LOOKUP)
    for ob in I.obs.values():
        if not ob.ok:
            rep.fail(rule + '.ub', 'state_for_iface|%s' % ob.kind, ob.msg, node=ob.node, function=ob.fn)
    # ... and the lookup is the only code that touches the list of records: a handler walking it would read or write the
    # record of another interface (shared icon buffers, cross-interface gates)
    from .c17 import global_use_rule
    global_use_rule(rep, prog, rule)
    return kinds
