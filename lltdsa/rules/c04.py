"""C04 — Hello properties faithfully encode the interface's attributes.

(A) Every Hello the two Discover cells can transmit is parsed symbolically;
    each property's payload bytes (byte-lane terms over the port getters'
    results) must equal the oracle encoding: big-endian lanes, sign extension
    for RSSI, flags in the upper half-word, verbatim addresses, clamped names,
    constants; wireless properties iff the port reports a Wi-Fi mode.
(B) The Linux port getters are interpreted on a symbolic interface record:
    address, MTU and type copied, link speed divided by 100, duplex/loopback
    mapped to their characteristics bits."""
from ..common import Report, finish
from ..facts import AnalysisBroken
from .. import facts
from ..engine import Engine, run_entry, mk_obj
from ..absint import Val
from ..port import PortModel, rc_atom
from ..terms import C, ZERO, ONE, INF, short, is_const, lin_of, Lin, mk_byte, mk_cat, Dom
from .. import mem, oracle
from .dispatch import analyse, OP
from .c03 import own_mac_byte

BASE = 32 + 14
LINUX_PORT = 'os/linux/lltd_port.c'


def P(name, i):
    return ('in', 'port.' + name, i)


def sel(name, i, other=ZERO):
    return ('sel', rc_atom(name), P(name, i), other)


def expect_tlv(st, ty, ln, payload):
    """-> (ok, text) for one parsed property."""
    def eqb(got, want):
        return st.same(got, want)

    def be(name, n):
        # big-endian lanes of the *value* the getter supplies.  The port model names the out-parameter's bytes by
        # memory position; value byte j sits at memory position j on a little-endian host and n-1-j on a big-endian one
        from ..mem import BIG_ENDIAN
        return [sel(name, (k if BIG_ENDIAN else n - 1 - k)) for k in range(n)]
    if ty == 0x01:
        return all(own_mac_byte(st, b, i) for i, b in enumerate(payload)) and len(payload) == 6, 'host id = own MAC (6 bytes)'
    if ty == 0x02:
        want = [P('characteristics_flags', 1), P('characteristics_flags', 0), ZERO, ZERO]
        return len(payload) == 4 and all(eqb(g, w) for g, w in zip(payload, want)), 'characteristics = BE32(flags16 << 16)'
    if ty == 0x03:
        return len(payload) == 4 and all(eqb(g, w) for g, w in zip(payload, be('if_type', 4))), 'interface type = BE32(port value)'
    if ty == 0x07:
        want = [sel('ipv4', k) for k in range(4)]
        return len(payload) == 4 and all(eqb(g, w) for g, w in zip(payload, want)), 'IPv4 = address bytes as supplied (network order)'
    if ty == 0x08:
        want = [sel('ipv6', k) for k in range(16)]
        return len(payload) == 16 and all(eqb(g, w) for g, w in zip(payload, want)), 'IPv6 = 16 address bytes as supplied'
    if ty == 0x0A:
        v = 1000000
        want = [C((v >> (8 * (7 - k))) & 0xFF) for k in range(8)]
        return len(payload) == 8 and all(eqb(g, w) for g, w in zip(payload, want)), 'performance counter frequency = BE64(1 000 000)'
    if ty == 0x0C:
        return len(payload) == 4 and all(eqb(g, w) for g, w in zip(payload, be('link_speed', 4))), 'link speed = BE32(port value in 100 bit/s units)'
    if ty == 0x04:
        return len(payload) == 1 and (eqb(payload[0], sel('wifi_mode', 0)) or eqb(payload[0], P('wifi_mode', 0))), 'Wi-Fi mode byte'
    if ty == 0x05:
        want = [P('bssid', k) for k in range(6)]
        return len(payload) == 6 and all(eqb(g, w) or eqb(g, sel('bssid', k, ('uninit',))) for k, (g, w) in enumerate(zip(payload, want))), 'BSSID verbatim'
    if ty == 0x09:
        return len(payload) == 2 and all(eqb(g, w) for g, w in zip(payload, be('wifi_max_rate', 2))), 'max rate = BE16(port value)'
    if ty == 0x0D:
        b0 = sel('wifi_rssi', 0)
        sx = ('sxb', b0)
        def low_is(g):
            # the least significant byte is the supplied byte: structurally, or as byte 0 of (that byte + a multiple of 256)
            if eqb(g, b0):
                return True
            g = st.canon(g)
            from ..terms import mk_sext, lin_of as _lin
            sx8 = st.canon(mk_sext(st.canon(b0), 1))
            ds8 = st.dom(sx8)
            # the byte written as (uint8_t) of the int8 value: sext(b) on a path that knows it non-negative, sext(b) + 256 on
            # a path that knows it negative - both are b
            if g == sx8 and ds8.lo >= 0:
                return True
            lg = _lin(g)
            if lg is not None and len(lg.co) == 1 and list(lg.co.items())[0] == (sx8, 1) and lg.k == 256 and ds8.hi < 0:
                return True
            if g[0] == 'byte' and g[2] == 0:
                from ..terms import lin_of
                l = lin_of(g[1])
                if l is not None and len(l.co) == 1 and l.k % 256 == 0:
                    (a, c), = l.co.items()
                    d = st.dom(a)
                    return c == 1 and st.canon(a) == st.canon(b0) and d.lo >= 0 and d.hi <= 255
            return False

        def fill_is(g):
            # a sign-fill byte: structurally sxb(b0), or - on a path that knows the sign - the constant it denotes there
            if eqb(g, sx) or st.canon(g) == st.canon(sx):
                return True
            d0, dg = st.dom(b0), st.dom(g)
            from ..terms import mk_sext
            ds = st.dom(mk_sext(st.canon(b0), 1))          # the path may know the sign through the int8 value instead
            neg = d0.lo >= 128 or ds.hi < 0
            pos = d0.hi <= 127 or ds.lo >= 0
            return (neg and dg.lo == dg.hi == 255) or (pos and dg.lo == dg.hi == 0)
        ok = len(payload) == 4 and low_is(payload[3]) and all(fill_is(payload[k]) for k in range(3))
        return ok, 'RSSI = BE32 of the sign-extended int8 dBm value'
    if ty == 0x14:
        want = [C(0xE0), ZERO, ZERO, ZERO]
        return len(payload) == 4 and all(eqb(g, w) for g, w in zip(payload, want)), 'QoS characteristics = BE32(0xE0000000)'
    if ty in (0x0E, 0x11):
        return len(payload) == 0, 'empty placeholder'
    return None, 'no oracle'


def run(tier):
    rep = Report('C04', tier)
    fnf = 'lltdResponder/lltdTlvOps.c'
    rep.rule('R04.a', 'payload of every Hello property equals the oracle encoding of the port getter results (byte lanes)', floor=40)
    rep.rule('R04.b', 'names: machine name / SSID length = min(returned, 32) and the payload is what the getter wrote', floor=4)
    rep.rule('R04.c', 'wireless properties are present iff the port reports a Wi-Fi mode', floor=4)
    rep.rule('R04.d', 'Linux port: address, MTU, type copied; link speed / 100; duplex and loopback mapped to their characteristics bits', floor=6)
    # the Wi-Fi getter's outcome is kept apart at merges: a path "reported a mode, emitted nothing" must not dissolve into
    # the wired path it resembles
    from .frame_common import TOS, OPC
    nwifi = [0]
    fs, sums, obs, stats = analyse(mtu_ok=True, regions=['topo.discover', 'quick.discover'], tracked=(TOS, OPC, rc_atom('wifi_mode')))
    nhello = 0
    WIFI = {0x04, 0x05, 0x06, 0x09, 0x0D}
    for region, lst in sums.items():
        for s in lst:
            if s.faults:
                continue
            st = s.st
            for sn, ctx in s.sends:
                op17 = st.canon(sn.byte(17))
                if not is_const(op17):
                    # the frame that answers the Discover was overwritten at a position the analysis cannot tie to the sizes of the
                    # properties before it (rounded, masked, scaled): the properties no longer follow one another in the frame
                    rep.fail('R04.a', 'chain|position|%s' % region,
                             'the answer to a Discover is written at positions that are not the running sum of the property sizes (its opcode byte reads %s after the stores): '
                             'a property list with gaps ends, for the mapper, at the first gap' % short(op17), function='answerHello', file='lltdResponder/lltdBlock.c')
                    continue
                if op17 != C(OP['hello']):
                    continue
                nhello += 1
                pos = Lin({}, BASE)
                seen = {}
                for _ in range(40):
                    t = sn.byte_at(pos)
                    t = st.canon(t) if t is not None else None
                    if t is None or not is_const(t) or t[1] == 0:
                        # the chain ends here: on the End-of-Property marker, which is the frame's last byte - a zero (pad) byte
                        # earlier ends the list for the mapper, and the properties written behind it are never read
                        from ..terms import term_of_lin
                        endpos = term_of_lin(pos.add(Lin({}, 1)))
                        at_end = t is not None and is_const(t) and t[1] == 0 and (st.same(endpos, sn.length) or (st.prove_le(endpos, sn.length) and st.prove_le(sn.length, endpos)))
                        rep.check(at_end, 'R04.a', 'chain|ends-at-marker',
                                  'the property list of the Hello cannot be followed to the end of the frame: at offset %s (after properties %s) the type byte is %s and the frame is %s bytes long '
                                  '- a mapper stops reading there and never sees what follows'
                                  % (short(term_of_lin(pos)), ['0x%02x' % x for x in seen], short(t) if t is not None else 'not written', short(st.canon(sn.length))),
                                  function='answerHello', file='lltdResponder/lltdBlock.c')
                        break
                    ty = t[1]
                    lb = sn.byte_at(pos.add(Lin({}, 1)))
                    if lb is None:
                        break
                    lb = st.canon(lb)
                    d = st.dom(lb)
                    if ty in (0x0F, 0x06):
                        name = 'hostname' if ty == 0x0F else 'ssid'
                        ret = ('sym', 'ret.' + name, 0, (1 << 64) - 1)
                        dr = st.dom(ret)
                        # length byte is the getter's return value clamped to 32
                        okl = (dr.hi <= 32 and st.same(lb, ret)) or (dr.lo >= 32 and st.same(lb, C(32)))      # (at exactly 32 both spellings of min() agree)
                        rep.check(okl, 'R04.b', '%s|length' % name, '%s length byte is %s with the getter returning %s; expected min(returned, 32)' % (name, short(lb), dr),
                                  function='set%sTLV' % ('Hostname' if ty == 0x0F else 'SSID'), file=fnf, sample={'property': name, 'length': short(lb), 'returned': repr(dr)})
                        # payload origin: the getter was handed exactly the payload area (buffer + position + 2, at most 32 bytes)
                        gets = [e for e in st.trace if e[0] == 'get' and e[1] == name and len(e) >= 6]
                        want_off = pos.add(Lin({}, 2))
                        okp = any(e[3] == sn.d['obj'] and lin_of(st.canon(e[4])).key() == want_off.key() and e[5] == 32 for e in gets)
                        rep.check(okp, 'R04.b', '%s|payload' % name,
                                  '%s: the port getter was not asked to write (at most 32 bytes) into the property payload at offset %r (calls: %s)'
                                  % (name, want_off, [(e[3], short(e[4]), e[5]) for e in gets]), function='set%sTLV' % ('Hostname' if ty == 0x0F else 'SSID'), file=fnf)
                    else:
                        if d.const() is None:
                            rep.fail('R04.a', 'tlv-0x%02x|length' % ty, 'property 0x%02x has non-constant length %s' % (ty, d), function='answerHello', file=fnf)
                            break
                        n = int(d.const())
                        payload = [st.canon(sn.byte_at(pos.add(Lin({}, 2 + i))) or ('uninit',)) for i in range(n)]
                        ok, what = expect_tlv(st, ty, n, payload)
                        if ok is None:
                            rep.fail('R04.a', 'tlv-0x%02x|unknown' % ty, 'Hello carries property 0x%02x for which no encoding is specified' % ty, function='answerHello', file=fnf)
                        else:
                            rep.check(ok, 'R04.a', 'tlv-0x%02x|payload' % ty, 'property 0x%02x payload is %s; expected %s' % (ty, [short(b) for b in payload][:8], what),
                                      function='answerHello', file=fnf, sample={'property': '0x%02x' % ty, 'encoding': what} if ty not in seen and len(rep.samples) < 30 else None)
                    seen[ty] = True
                    pos = pos.add(Lin({}, 2)).add(lin_of(lb))
                # wireless gate
                rcw = st.dom(rc_atom('wifi_mode'))
                has = WIFI & set(seen)
                if rcw.const() == 0:
                    nwifi[0] += 1
                    rep.check(0x04 in seen and 0x09 in seen and 0x0D in seen, 'R04.c', 'gate|wifi-present',
                              'the port reports a Wi-Fi mode but the Hello lacks wireless properties (has %s)' % sorted('0x%02x' % x for x in has), function='answerHello',
                              file='lltdResponder/lltdBlock.c')
                    # the BSSID the port supplies is carried whatever its value: absent only when the getter failed
                    rcb = st.dom(rc_atom('bssid'))
                    if rcb.const() == 0:
                        rep.check(0x05 in seen, 'R04.c', 'gate|bssid-present',
                                  'the port supplied a BSSID (getter succeeded) but the Hello carries no BSSID property: some value of the address makes the writer drop it',
                                  function='setBSSIDTLV', file='lltdResponder/lltdTlvOps.c')
                    elif rcb.contains(0) and 0x05 not in seen:
                        rep.fail('R04.c', 'gate|bssid-unchecked', 'a wireless Hello without BSSID property on a path that did not establish that the BSSID getter failed',
                                 function='setBSSIDTLV', file='lltdResponder/lltdTlvOps.c')
                elif not rcw.contains(0):
                    rep.check(not has, 'R04.c', 'gate|wired-absent', 'the port reports no Wi-Fi mode but the Hello carries wireless properties %s' % sorted('0x%02x' % x for x in has),
                              function='answerHello', file='lltdResponder/lltdBlock.c')
                else:
                    rep.check(not has, 'R04.c', 'gate|unchecked', 'wireless properties %s are emitted without testing the Wi-Fi mode getter' % sorted('0x%02x' % x for x in has),
                              function='answerHello', file='lltdResponder/lltdBlock.c')
    if nhello < 4:
        rep.broke('only %d Hello frames found' % nhello)
    if not nwifi[0]:
        rep.broke('no Hello path on which the port is known to have reported a Wi-Fi mode')
    linux_port(rep)
    rep.analysed.update({'hello_frames_parsed': nhello})
    return finish(rep, 'proof',
                  'Every Hello frame the Discover cells can transmit (all getter outcomes, name lengths, wired / wireless) is parsed over symbolic offsets and each property payload is '
                  'compared, byte lane by byte lane, with the oracle encoding of the symbolic getter results - deciding byte order, sign extension and clamps for all attribute values at once; '
                  'the Linux port getters are interpreted on a symbolic interface record. Whether the Linux daemon fills that record correctly from the kernel is outside the property.',
                  'abstract interpretation with byte-lane terms; symbolic parse of the Hello; oracle encodings', exhaustive=True)


def linux_port(rep):
    units = [u for u in facts.compile_db() if u.path == LINUX_PORT and u.config == 'systemd']
    if not units:
        raise AnalysisBroken('os/linux/lltd_port.c not in the compile database')
    facts.load_units(units)
    if units[0].ast is None:
        rep.note('not covered (does not parse here): %s %s' % (LINUX_PORT, units[0].error))
        rep.broke('Linux port does not parse')
        return
    prog = facts.Program(units)
    ix = prog.unit(LINUX_PORT)
    t = ix.parse_type('network_interface_t')
    if t.kind != 'rec' or t.rec.size is None:
        raise AnalysisBroken('network_interface_t has no layout')
    rec = t.rec

    def libc_memcpy(I, st, args, node, rty):
        return PortModel().p_memcpy(I, st, args, node, rty)

    def fld(name):
        f = rec.field(name)
        if f is None:
            raise AnalysisBroken('field network_interface_t.%s vanished' % name)
        return f[1], ix.sizeof(ix.parse_type(f[2]))

    def run_getter(fname, out_size, out_ty):
        if fname not in ix.functions:
            raise AnalysisBroken('anchor %s vanished from the Linux port' % fname)

        def setup(I, st):
            mk_obj(st, 'IFACE', rec.size, kind='heap', default='sym')
            mk_obj(st, 'OUT', out_size, kind='heap', default='uninit') if out_size else None
            a = [Val(ix.parse_type('void *'), ('ptr', 'IFACE', ZERO))]
            if out_size:
                a.append(Val(ix.parse_type(out_ty), ('ptr', 'OUT', ZERO)))
            return a
        return run_entry(prog, LINUX_PORT, fname, setup, port=None, summaries={'memcpy': libc_memcpy}, name=fname)

    def field_bytes(name):
        off, n = fld(name)
        return [('in', 'IFACE', off + i) for i in range(n)]
    fnf = LINUX_PORT
    # address
    I, outs = run_getter('lltd_port_get_mac_address', 6, 'ethernet_address_t *')
    for st, v in outs:
        got = [st.canon(b) for b in mem.load_bytes(st, st.objs['OUT'], ZERO, 6)]
        rep.check(got == field_bytes('macAddress')[:6] and st.canon(v.t) == ZERO, 'R04.d', 'linux|mac', 'get_mac_address supplies %s' % [short(b) for b in got],
                  function='lltd_port_get_mac_address', file=fnf, sample={'linux_getter': 'mac', 'origin': 'macAddress'})
    # MTU, type, speed
    for fname, field, outty, osz, div in (('lltd_port_get_mtu', 'MTU', 'size_t *', 8, None), ('lltd_port_get_if_type', 'ifType', 'uint32_t *', 4, None),
                                          ('lltd_port_get_link_speed_100bps', 'LinkSpeed', 'uint32_t *', 4, 100)):
        I, outs = run_getter(fname, osz, outty)
        off, n = fld(field)
        src = mem.reassemble([('in', 'IFACE', off + i) for i in range(n)])     # value of the field in the modelled byte order
        for st, v in outs:
            got = st.canon(mem.load_scalar(st, st.objs['OUT'], ZERO, ix.parse_type('unsigned long' if osz == 8 else 'unsigned int')))
            want = st.canon(src if div is None else ('div', src, C(div)))
            ok = st.same(got, want) and st.canon(v.t) == ZERO
            rep.check(ok, 'R04.d', 'linux|%s' % field, '%s supplies %s; expected %s' % (fname, short(got), 'the record field %s%s' % (field, '' if div is None else ' / %d' % div)),
                      function=fname, file=fnf, sample={'linux_getter': fname, 'origin': field + ('' if div is None else '/100')})
    # characteristics: exact truth table over MediumType & IFM_FDX, flags & IFF_LOOPBACK
    I, outs = run_getter('lltd_port_get_characteristics_flags', 0, None)
    moff, mn = fld('MediumType')
    foff, fn_ = fld('flags')
    seen = set()
    for st, v in outs:
        r = st.dom(st.canon(v.t)).const()
        med = mem.reassemble([('in', 'IFACE', moff + i) for i in range(mn)])
        flg = mem.reassemble([('in', 'IFACE', foff + i) for i in range(fn_)])
        fdx = bit_known(st, med, 0x10)
        loop = bit_known(st, flg, 0x8)
        if r is None or fdx is None or loop is None:
            rep.fail('R04.d', 'linux|characteristics-path', 'a path of get_characteristics_flags returns %s without having tested the duplex bit (%s) and the loopback bit (%s)'
                     % (short(st.canon(v.t)), fdx, loop), function='lltd_port_get_characteristics_flags', file=fnf)
            continue
        want = (0x2000 if fdx else 0) | (0x800 if loop else 0)
        seen.add((fdx, loop))
        rep.check(r == want, 'R04.d', 'linux|characteristics|%d%d' % (fdx, loop), 'duplex=%s loopback=%s yields flags 0x%x, expected 0x%x' % (fdx, loop, r, want),
                  function='lltd_port_get_characteristics_flags', file=fnf, sample={'duplex': fdx, 'loopback': loop, 'flags': hex(r)})
    rep.check(len(seen) == 4, 'R04.d', 'linux|characteristics-cases', 'characteristics getter covers %d of the 4 duplex/loopback combinations' % len(seen),
              function='lltd_port_get_characteristics_flags', file=fnf)


def bit_known(st, term, mask):
    """Did the path establish (term & mask) != 0 (True) / == 0 (False)?  None if not tested."""
    for t, d in st.env.items():
        if t[0] == 'and' or t[0] == 'cat' or t[0] in ('in', 'sym'):
            pass
    cands = []
    for t in list(st.env) + list(st.eq):
        if involves_mask(st, t, term, mask):
            cands.append(t)
    for t in cands:
        d = st.dom(t)
        if d.hi == 0:
            return False
        if d.lo >= 1 or not d.contains(0):
            return True
    return None


def involves_mask(st, t, term, mask):
    """t is (some byte lane of term) & (the corresponding byte of mask), in the shapes the engine builds."""
    k = 0
    m = mask
    while m and not (m & 0xFF):
        m >>= 8
        k += 1
    lane = st.canon(mk_byte(term, k)) if term[0] != 'cat' else (term[1][k] if k < len(term[1]) else None)
    if lane is None:
        return False
    want = ('and', lane, C(m & 0xFF))
    alt = ('and', C(m & 0xFF), lane)
    if t == want or t == alt:
        return True
    if t[0] == 'cat' and (t[1][0] == want or t[1][0] == alt) and all(b == ZERO for b in t[1][1:]):
        return True
    return False
