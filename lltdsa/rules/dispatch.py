"""Dispatch matrix of parseFrame: one summary per final abstract state, shared
by C02, C03, C05, C06, C07, C08, C09, C10."""
from ..facts import AnalysisBroken
from ..terms import C, ZERO, INF, short, is_const, Dom, mk_cat
from .. import oracle, mem
from .frame_common import (FrameSetup, run_regions, REGIONS, TOS, OPC, KNOWN, sends, effects, Snap, BLOCK_UNIT)
from .automata_common import load_core

OP = oracle.OPCODES
OPNAME = {v: k for k, v in OP.items()}


def frame_bytes(off, n):
    return tuple(('in', 'frame', off + i) for i in range(n))


F_ETH_DST = frame_bytes(0, 6)
F_ETH_SRC = frame_bytes(6, 6)
F_REAL_DST = frame_bytes(18, 6)
F_REAL_SRC = frame_bytes(24, 6)
F_SEQ = frame_bytes(30, 2)
PORT_MAC = tuple(('in', 'port.mac', i) for i in range(6))
BCAST = tuple(C(0xFF) for _ in range(6))


class Summary(object):
    """What one final abstract state of parseFrame says."""

    def __init__(self, fs, region, st, ret):
        self.fs, self.region, self.st = fs, region, st
        self.tos = st.dom(TOS)
        self.op = st.dom(OPC)
        self.k_pre = st.dom(KNOWN)
        self.faults = [e for e, _ in effects(st, 'malloc-failed')]
        self.sends = [(Snap(st, s), ctx) for s, ctx in sends(st)]
        so = st.objs.get('st')
        self.so = so
        # mapper_known after
        self.k_post = self.field('mapper_known', 1)
        self.k_post_dom = st.dom(self.k_post)
        # M: frame.realSource vs stored mapper_real at entry
        off = fs.soff('mapper_real')
        eq = neq = 0
        for i in range(6):
            a, b = ('in', 'st', off + i), F_REAL_SRC[i]
            if st.canon(a) == st.canon(b):
                eq += 1
            elif st.known_neq(a, b):
                neq += 1
        self.M = True if eq == 6 else (False if neq else None)
        if self.M is None and 'pred:M' in st.tags:
            self.M = st.tags['pred:M']

    def field(self, name, n):
        off = self.fs.soff(name)
        ty = {1: 'unsigned char', 2: 'unsigned short', 4: 'unsigned int', 8: 'unsigned long long'}[n]
        return self.st.canon(mem.load_scalar(self.st, self.so, C(off), self.fs.ix.parse_type(ty)))

    def field_bytes(self, name, n):
        off = self.fs.soff(name)
        return tuple(self.st.canon(b) for b in mem.load_bytes(self.st, self.so, C(off), n))

    def unchanged(self, name, n):
        off = self.fs.soff(name)
        if name == 'mapper_known':
            return self.k_post == self.st.canon(KNOWN)
        return all(self.st.canon(b) == self.st.canon(('in', 'st', off + i)) for i, b in enumerate(self.field_bytes(name, n)))

    def changed_fields(self, exclude=()):
        """Names of the record fields (other than `exclude` roles) whose bytes differ from the record at entry."""
        skip = set(self.fs.soff(n) for n in exclude)
        out = []
        for name, off, qt, _ in self.fs.srec.fields:
            if off is None or off in skip:
                continue
            n = self.fs.ix.sizeof(self.fs.ix.parse_type(qt))
            now = tuple(self.st.canon(b) for b in mem.load_bytes(self.st, self.so, C(off), n))
            ent = self.fs.entry_bytes(off, n)
            if now != ent and now != tuple(self.st.canon(b) for b in ent):
                # a pointer that was loaded and stored back (saved across a wipe of the record) reads as the byte lanes of the
                # pointer value the entry bytes stand for: the same bytes
                t0 = now[0][1] if len(now[0]) == 3 and now[0][0] == 'byte' else None
                if (t0 is not None and t0[0] == 'pset' and t0[1] == ent[0] and ent[0][0] == 'in'
                        and all(len(b) == 3 and b[0] == 'byte' and b[1] == t0 and b[2] == i for i, b in enumerate(now))):
                    continue
                out.append(name)
        return out

    def opcodes_sent(self):
        out = []
        for sn, ctx in self.sends:
            b = sn.byte(17)
            out.append(b[1] if is_const(b) else None)
        return out

    def cell(self):
        return '%s x %s' % (self.tos, self.op)

    def describe(self):
        return {'tos': repr(self.tos), 'opcode': repr(self.op), 'mapper_known@entry': repr(self.k_pre), 'M': self.M,
                'sent': [OPNAME.get(o, o) for o in self.opcodes_sent()], 'faults': len(self.faults),
                'mapper_known@exit': short(self.k_post)}


_CACHE = {}


def analyse(mtu_ok=True, regions=None, config='systemd', fresh_state=False, engine_cls=None, extra=None, tracked=None, force_summary=False):
    """Run parseFrame over the requested regions; -> (fs, {region: [Summary]}, obligations, stats)"""
    from ..engine import Engine
    prog = load_core(config)
    fs = FrameSetup(prog, mtu_ok=mtu_ok, fresh_state=fresh_state)
    fs.force_summary = force_summary
    kw = {}
    if tracked is not None:
        kw['tracked'] = tracked
    res, obs, stats = run_regions(fs, regions=regions, engine_cls=engine_cls or Engine, extra=extra, **kw)
    sums = {}
    for region, outs in res.items():
        sums[region] = [Summary(fs, region, st, ret) for st, ret in outs]
    return fs, sums, obs, stats


def fail_obligations(rep, obs, rule, kinds=None, only_fns=None):
    for o in obs:
        if o['ok']:
            continue
        if kinds is not None and o['kind'] not in kinds:
            continue
        if only_fns is not None and o['fn'] not in only_fns:
            continue
        rep.fail(rule, '%s|%s|%s' % (o['fn'], o['kind'], o['sym'] or ''), o['msg'], file=o['file'], line=o['line'], function=o['fn'])
