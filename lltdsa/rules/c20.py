"""C20 — the protocol core reaches the outside world only through the port API.

Decided by (a) symbol closure of the relocatably linked core under a matrix of
compiler settings (compiling is not running), (b) resolved callees in the AST,
(c) the include graph of core files (lexer level), (d) identifiers used by
preprocessor conditionals / OS macros anywhere in core files (lexer level).
"""
import glob
import os
import re
import shutil
import subprocess
import tempfile

from .. import facts
from ..common import Report, finish
from ..facts import REPO, AnalysisBroken

MEM_PRIMS = {'memcpy', 'memset', 'memmove', 'memcmp'}
# compiler builtins that are expanded in place (no call, no symbol): whatever a build does emit is still seen by R20.a
PURE_BUILTINS = {'__builtin_' + n for n in ('expect', 'expect_with_probability', 'unreachable', 'constant_p', 'bswap16', 'bswap32', 'bswap64', 'offsetof',
                                          'assume_aligned', 'types_compatible_p', 'choose_expr', 'add_overflow', 'sub_overflow', 'mul_overflow',
                                          'prefetch', 'object_size')}
# compiler runtime a C compiler may reference by itself; each with its reason
RUNTIME_OK = {
    '__stack_chk_fail': 'stack protector epilogue (distribution default flags)',
    '__stack_chk_guard': 'stack protector canary',
    '_GLOBAL_OFFSET_TABLE_': 'PIC/PIE addressing, resolved by the linker',
    '__udivdi3': '64-bit division helper on 32-bit targets (libgcc)',
    '__umoddi3': '64-bit modulo helper on 32-bit targets (libgcc)',
    '__divdi3': '64-bit division helper on 32-bit targets (libgcc)',
    '__moddi3': '64-bit modulo helper on 32-bit targets (libgcc)',
    '__udivmoddi4': '64-bit divmod helper (libgcc/compiler-rt)',
    '__muldi3': '64-bit multiply helper on 32-bit targets (libgcc)',
}
FREESTANDING_HEADERS = {'stdbool.h', 'stddef.h', 'stdint.h', 'limits.h', 'stdarg.h', 'float.h',
                        'iso646.h', 'stdalign.h', 'stdnoreturn.h'}
OS_MACROS = {
    '__APPLE__', '__MACH__', '__linux__', '__linux', 'linux', '__gnu_linux__', '_WIN32', '_WIN64', '__WIN32',
    '__WIN32__', 'WIN32', '__FreeBSD__', '__NetBSD__', '__OpenBSD__', '__DragonFly__', '__sun', '__sunos',
    '__SVR4', '__svr4__', '__VMKERNEL__', '__ESXI__', 'ESP_PLATFORM', '__unix__', '__unix', 'unix',
    '__ANDROID__', '__HAIKU__', '__BEOS__', '__CYGWIN__', '__MINGW32__', '__MINGW64__', '_MSC_VER_OS',
    'LINUX', 'OSX', 'SunOS', 'FreeBSD', '__QNX__', '__VXWORKS__', '__ZEPHYR__', 'ESP32', 'IDF_VER',
    '__WATCOMC__OS', '__OS2__', '__DOS__', '__NT__', '_WINDOWS', '__WINDOWS__',
}


def core_files():
    d = os.path.join(REPO, 'lltdResponder')
    fs = sorted(glob.glob(os.path.join(d, '*.c')) + glob.glob(os.path.join(d, '*.h')))
    if len(fs) < 8:
        raise AnalysisBroken('core directory has only %d files' % len(fs))
    return fs


_tok = re.compile(r"^(\w+) '(.*)'\t(.*)Loc=<(.*):(\d+):(\d+)>$", re.S)


def raw_tokens(path):
    p = subprocess.run([facts.CLANG, '-fsyntax-only', '-Xclang', '-dump-raw-tokens', '-x', 'c', path],
                       capture_output=True, text=True)
    toks = []
    cur = None
    for line in p.stderr.split('\n'):
        # tokens containing newlines span several physical lines
        if cur is not None:
            cur += '\n' + line
        else:
            cur = line
        m = _tok.match(cur)
        if m:
            toks.append((m.group(1), m.group(2), 'StartOfLine' in m.group(3), int(m.group(5))))
            cur = None
        elif not re.match(r"^\w+ '", cur):
            cur = None
    if not toks:
        raise AnalysisBroken('no raw tokens for ' + path)
    return toks


def directives(toks):
    """Yield (name, [tokens], line) for every preprocessing directive."""
    i = 0
    n = len(toks)
    while i < n:
        kind, text, sol, line = toks[i]
        if kind == 'hash' and sol:
            j = i + 1
            body = []
            while j < n and not toks[j][2]:
                if toks[j][0] not in ('unknown', 'comment'):
                    body.append(toks[j])
                elif toks[j][0] == 'unknown' and '\n' in toks[j][1] and not toks[j][1].startswith('\\'):
                    break
                j += 1
            if body and body[0][0] == 'raw_identifier':
                yield body[0][1], body[1:], line
            i = j
        else:
            i += 1


def run(tier):
    rep = Report('C20', tier)
    rel = lambda p: os.path.relpath(p, REPO)

    # ---- (b) AST: resolved callees ------------------------------------------------
    units = [u for u in facts.compile_db() if u.path in facts.CORE_UNITS and u.config in ('systemd', 'testing')]
    facts.load_units(units)
    for u in units:
        if u.ast is None:
            rep.broke('core unit does not parse: %s (%s) %s' % (u.path, u.config, u.error))
    port_fns = set()
    rep.rule('R20.b', 'every call in the core resolves to a core definition or a lltdPort.h declaration', floor=250)
    rep.rule('R20.a', 'undefined symbols of the relocatably linked core are port functions, memory primitives or named compiler runtime', floor=20)
    rep.rule('R20.c', '#include of core files: core headers or freestanding C headers only', floor=20)
    rep.rule('R20.d', 'no OS macro anywhere in core files; conditionals listed', floor=10)
    for config in ('systemd', 'testing'):
        us = [u for u in units if u.config == config and u.ast is not None]
        if not us:
            continue
        prog = facts.Program(us)
        core_defs = set()
        for ix in prog.index.values():
            for name, fn in ix.functions.items():
                if (fn.get('_file') or '').startswith(os.path.join(REPO, 'lltdResponder') + '/'):
                    core_defs.add(name)
            for name, fd in ix.fdecls.items():
                if (fd.get('_file') or '').endswith('/lltdResponder/lltdPort.h'):
                    port_fns.add(name)
        if len(port_fns) < 20:
            rep.broke('only %d functions found in lltdPort.h' % len(port_fns))
        # functions whose address the core takes (any use of a function name that is not the callee of a direct call): a call
        # through a pointer can only reach one of those (the port's own slots aside), so it is as good as the direct calls
        taken = {}
        for ix in prog.index.values():
            for fname, fn in ix.functions.items():
                if not (fn.get('_file') or '').startswith(os.path.join(REPO, 'lltdResponder') + '/'):
                    continue
                direct = set()
                for n in facts.walk(fn):
                    if n.get('kind') == 'CallExpr' and n.get('inner'):
                        c_ = n['inner'][0]
                        while c_.get('kind') in ('ImplicitCastExpr', 'ParenExpr'):
                            c_ = c_['inner'][0]
                        if c_.get('kind') == 'DeclRefExpr':
                            direct.add(c_.get('id'))
                for n in facts.walk(fn):
                    if n.get('kind') == 'DeclRefExpr' and (n.get('referencedDecl') or {}).get('kind') == 'FunctionDecl' and n.get('id') not in direct:
                        taken.setdefault(n['referencedDecl']['name'], (fname, n))
        foreign_taken = sorted(t_ for t_ in taken if t_ not in core_defs and t_ not in port_fns)
        for ix in prog.index.values():
            for fname, fn in ix.functions.items():
                if not (fn.get('_file') or '').startswith(os.path.join(REPO, 'lltdResponder') + '/'):
                    continue
                for n in facts.walk(fn):
                    if n.get('kind') != 'CallExpr':
                        continue
                    callee = n['inner'][0]
                    while callee.get('kind') in ('ImplicitCastExpr', 'ParenExpr'):
                        callee = callee['inner'][0]
                    if callee.get('kind') == 'DeclRefExpr' and callee['referencedDecl'].get('kind') == 'FunctionDecl':
                        cn = callee['referencedDecl']['name']
                        ok = cn in core_defs or cn in port_fns or cn in PURE_BUILTINS
                        rep.check(ok, 'R20.b', '%s|%s|%s' % (rel(ix.unit.abspath), fname, cn),
                                  'core function %s calls %s, which is neither defined in the core nor declared in lltdPort.h' % (fname, cn),
                                  node=n, function=fname)
                    elif callee.get('kind') == 'MemberExpr':
                        # call through a function-pointer field: only the tick port's send_hello slot
                        ok = callee.get('name') == 'send_hello'
                        rep.check(ok, 'R20.b', '%s|%s|fnptr:%s' % (rel(ix.unit.abspath), fname, callee.get('name')),
                                  'indirect call through %s in core function %s' % (callee.get('name'), fname),
                                  node=n, function=fname,
                                  sample={'indirect_call': callee.get('name'), 'in': fname})
                    else:
                        # through a pointer value (a local table of handlers): fine when every function whose address the
                        # core takes is a core or port function
                        rep.check(not foreign_taken, 'R20.b', '%s|%s|indirect' % (rel(ix.unit.abspath), fname),
                                  'indirect call in core function %s, and the core takes the address of %s, which is neither defined in the core nor declared in lltdPort.h'
                                  % (fname, foreign_taken), node=n, function=fname)
    rep.analysed['port_functions'] = sorted(port_fns)

    # ---- (a) symbol closure ---------------------------------------------------------
    matrix = []
    ccs = [c for c in ('gcc', 'clang') if shutil.which(c)]
    if len(ccs) < 2:
        rep.note('compilers available: %s' % ccs)
    if tier == 'quick':
        matrix = [('gcc', '-O2', ''), ('clang', '-O0', '-ffreestanding'), ('gcc', '-O0', '-fPIC')]
    else:
        for cc in ccs:
            for o in ('-O0', '-O2', '-Os'):
                for fs in ('', '-ffreestanding', '-fPIC'):
                    matrix.append((cc, o, fs))
    matrix = [m for m in matrix if m[0] in ccs]
    sysflags = [f for f in next(u for u in units if u.config == 'systemd').flags]
    tmp = tempfile.mkdtemp(prefix='lltdsa-c20-')
    configs_done = []
    try:
        for cc, o, fs in matrix:
            objs = []
            bad = None
            for s in facts.CORE_UNITS:
                obj = os.path.join(tmp, '%s%s%s-%s.o' % (cc, o, fs, os.path.basename(s)))
                cmd = [cc, '-std=gnu11', '-c', o] + ([fs] if fs else []) + sysflags + ['-w', os.path.join(REPO, s), '-o', obj]
                p = subprocess.run(cmd, capture_output=True, text=True, cwd=REPO)
                if p.returncode != 0:
                    bad = p.stderr.strip().splitlines()[:2]
                    break
                objs.append(obj)
            if bad:
                if fs:
                    # does the same unit compile without the mode flag?  Then the core relies on something only the hosted
                    # C library (or a non-PIC build) provides - a macro leaking in through the OS's libc headers, say -: that
                    # is what the property forbids, not a broken analysis
                    cmd0 = [c_ for c_ in cmd if c_ != fs]
                    p0 = subprocess.run(cmd0, capture_output=True, text=True, cwd=REPO)
                    if p0.returncode == 0:
                        rep.fail('R20.a', 'compile|%s|%s' % (fs, os.path.basename(s)), 'core file %s compiles hosted but not with %s %s %s (%s): it depends on something the hosted C '
                                 'library headers provide, so it cannot be built for kernel-mode / bare-metal ports' % (s, cc, o, fs, '; '.join(bad)), file=s)
                        configs_done.append({'cc': cc, 'opt': o, 'mode': fs, 'undefined': None})
                        continue
                rep.broke('core does not compile with %s %s %s: %s' % (cc, o, fs, bad))
                continue
            out = os.path.join(tmp, 'core.o')
            p = subprocess.run(['ld', '-r', '-o', out] + objs, capture_output=True, text=True)
            if p.returncode != 0:
                rep.broke('ld -r failed: ' + p.stderr[:200])
                continue
            p = subprocess.run(['nm', '-u', out], capture_output=True, text=True)
            und = sorted(set(l.split()[-1] for l in p.stdout.splitlines() if l.strip()))
            configs_done.append({'cc': cc, 'opt': o, 'mode': fs or 'hosted', 'undefined': len(und)})
            for sym in und:
                ok = sym in port_fns or sym in MEM_PRIMS or sym in RUNTIME_OK
                rep.check(ok, 'R20.a', 'sym|%s' % sym,
                          'relocatably linked core (%s %s %s) references %s, which is not a port function' % (cc, o, fs or 'hosted', sym),
                          file='lltdResponder', sample={'config': '%s %s %s' % (cc, o, fs or 'hosted'), 'undefined': und} if len(rep.samples) < 3 else None)
            for f in objs + [out]:
                os.unlink(f)
    finally:
        shutil.rmtree(tmp, ignore_errors=True)
    rep.analysed['compiler_configurations'] = configs_done
    if len(configs_done) < len(matrix):
        rep.broke('only %d of %d compiler configurations could be analysed' % (len(configs_done), len(matrix)))

    # ---- (e) storage the OS / loader has to provide: thread-local objects need the TLS runtime (__tls_get_addr, TLS segment
    # set-up by the loader or the RTOS), which is neither lltdPort.h nor compiler runtime - whatever model a given build picks
    rep.rule('R20.e', 'no thread-local storage in the core (TLS is provided by the OS loader / thread library, not by the port API)', floor=1)
    ntls = 0
    for ix in prog.index.values():
        for n in facts.walk(ix.unit.ast):
            if n.get('kind') == 'VarDecl' and (n.get('_file') or '').startswith(os.path.join(REPO, 'lltdResponder') + os.sep):
                ntls += 1
                if n.get('tls'):
                    rep.fail('R20.e', 'tls|%s' % n.get('name'), 'core object `%s` has thread-local storage (%s): the core depends on the platform\'s TLS runtime and keys its '
                             'state on the calling OS thread, none of which goes through lltdPort.h' % (n.get('name'), n.get('tls')), node=n, function=n.get('_fn'))
    if ntls == 0:
        rep.broke('no variable declarations found in core files')
    rep.ok('R20.e')

    # ---- (c)(d) lexer-level rules -------------------------------------------------------
    conditionals = []
    for path in core_files():
        toks = raw_tokens(path)
        r = rel(path)
        dirs = list(directives(toks))
        for idx, (name, body, line) in enumerate(dirs):
            if name in ('include', 'include_next', 'import'):
                if body and body[0][0] == 'string_literal':
                    inc = body[0][1].strip('"')
                    tgt = os.path.normpath(os.path.join(os.path.dirname(path), inc))
                    ok = tgt.startswith(os.path.join(REPO, 'lltdResponder') + '/') and os.path.exists(tgt)
                    rep.check(ok, 'R20.c', '%s|"%s"' % (r, inc), '%s includes "%s", which is not a core header' % (r, inc),
                              file=r, line=line)
                else:
                    inc = ''.join(t[1] for t in body).strip('<>')
                    ok = inc in FREESTANDING_HEADERS
                    rep.check(ok, 'R20.c', '%s|<%s>' % (r, inc),
                              '%s includes <%s>: not a freestanding C header (C library / OS header in the core)' % (r, inc),
                              file=r, line=line, sample={'file': r, 'include': inc} if len(rep.samples) < 8 else None)
            elif name in ('if', 'ifdef', 'ifndef', 'elif', 'elifdef', 'elifndef'):
                ids = [t[1] for t in body if t[0] == 'raw_identifier' and t[1] != 'defined']
                guard = False
                if name == 'ifndef' and len(ids) == 1 and idx + 1 < len(dirs):
                    n2, b2, _ = dirs[idx + 1]
                    guard = n2 == 'define' and b2 and b2[0][1] == ids[0]
                conditionals.append({'file': r, 'line': line, 'directive': name, 'identifiers': ids, 'self_defining_guard': guard})
        # OS macros anywhere (conditionals and code; comments are not tokens of kind raw_identifier)
        hits = [(t[1], t[3]) for t in toks if t[0] == 'raw_identifier' and (t[1] in OS_MACROS or t[1].startswith('TARGET_OS_'))]
        for ident, line in hits:
            rep.fail('R20.d', '%s|%s' % (r, ident), 'OS-specific macro %s used in core file %s' % (ident, r), file=r, line=line)
        rep.ok('R20.d', n=1)
    rep.analysed['conditionals'] = conditionals
    rep.analysed['core_files'] = [rel(p) for p in core_files()]
    # the repo's own grep lint, quoted as a cross-reference only
    try:
        p = subprocess.run(['bash', 'scripts/lint_core_no_os_conditionals.sh'], cwd=REPO, capture_output=True, text=True, timeout=60)
        rep.note('repo lint scripts/lint_core_no_os_conditionals.sh exit=%d (cross-reference, not a verdict)' % p.returncode)
    except Exception as e:
        rep.note('repo lint not runnable: %s' % e)

    return finish(rep, 'proof',
                  'Symbol closure of the relocatably linked core (nm -u after ld -r) over the compiler matrix, resolved callees of every '
                  'core call expression, include graph and OS-macro scan at lexer level. Compiling is not running; the matrix is finite and enumerated.',
                  'symbol-closure + resolved-callee who-may-call + lexer-level include/conditional lint',
                  assumptions=['compilers not installed (OpenWatcom, MSVC, xtensa-gcc) are not covered',
                               'clang raw lexer tokenises the core files as the real preprocessors do'],
                  exhaustive=(tier == 'thorough'))
