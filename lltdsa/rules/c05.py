"""C05 — one mapper at a time; Reset releases it; foreign services cannot seize it.

parseFrame is interpreted once with ToS and opcode as full byte sets, the
"mapper known" flag and the stored mapper address symbolic.  Every final
abstract state is a cell class (ToS set x opcode set x known x M) of the
complete single-step transition function, compared with the oracle; histories
follow by induction on that function."""
from ..common import Report, finish
from ..terms import short, is_const, ZERO
from .. import oracle
from .dispatch import analyse, OP, OPNAME, fail_obligations

DISCOVERY_TOS = (0, 1)


def run(tier):
    rep = Report('C05', tier)
    fs, sums, obs, stats = analyse(mtu_ok=True)
    rep.rule('R05.1', 'ToS outside {0,1}: mapper identity unchanged, nothing sent', floor=1)
    rep.rule('R05.2', 'Discover (ToS 0/1): no mapper -> Hello + mapper := sender; active & same sender -> Hello; active & other sender -> silence, unchanged', floor=6)
    rep.rule('R05.3', 'Reset (ToS 0/1) releases the mapper', floor=2)
    rep.rule('R05.4', 'every other frame of the discovery services leaves the mapper identity alone (commands never release it)', floor=4)
    rep.rule('R05.6', 'a command that is dropped (no reply, no other record field changed) does not establish the mapper: only accepted frames open a session', floor=2)
    rep.rule('R05.cov', 'the abstract result covers all 256 x 256 (ToS, opcode) pairs in both mapper states', floor=2)
    cover = {0: set(), 1: set()}
    ncells = 0
    for region, lst in sums.items():
        for s in lst:
            tv, ov = s.tos.values(), s.op.values()
            for kk in (0, 1):
                if (kk == 0 and s.k_pre.contains(0)) or (kk == 1 and s.k_pre.hi >= 1):
                    for t in tv:
                        for o in ov:
                            cover[kk].add((t, o))
            ncells += len(tv) * len(ov)
            check_state(rep, s)
    for kk in (0, 1):
        missing = 65536 - len(cover[kk])
        if missing:
            rep.broke('dispatch matrix incomplete: %d (ToS,opcode) pairs not covered for mapper_known %s' % (missing, '== 0' if kk == 0 else '!= 0'))
        else:
            rep.ok('R05.cov')
    # a brand-new interface has no mapper: its record is created all-zero (mapper_known == 0), keyed by its context
    from .state_record import check_state_for_iface
    rep.rule('R05.5', 'the record created for an interface\'s first frame is entirely zero (no active mapper) and keyed by the context', floor=3)
    check_state_for_iface(rep, fs.prog, 'R05.5')
    rep.analysed.update({'final_states': sum(len(v) for v in sums.values()), 'regions': {r: len(v) for r, v in sums.items()},
                         'cells_classified': ncells, 'engine': {r: {k: v for k, v in s.items() if k in ('steps', 'max_states')} for r, s in stats.items()}})
    return finish(rep, 'proof',
                  'Complete single-step transition function (mapper known?, sender == mapper?, ToS, opcode) -> (known\', reply) of parseFrame, obtained by '
                  'abstract interpretation with ToS/opcode as full byte sets (2 x 65 536 cells, each final abstract state is a class of cells), compared with the oracle table. '
                  'Histories follow by induction because the reply-or-silence decision reads only (mapper_known, mapper_real).',
                  'abstract interpretation with trace partitioning on (ToS, opcode, mapper_known, address equality); transition function vs oracle',
                  exhaustive=True)


def check_state(rep, s):
    st = s.st
    desc = s.describe()
    fn = 'parseFrame'
    tv = s.tos.values()
    ops = s.op.values()
    hello = [o for o in s.opcodes_sent() if o == OP['hello']]
    nsent = len(s.sends)
    fault = bool(s.faults)
    in_disc = all(t in DISCOVERY_TOS for t in tv)
    out_disc = all(t not in DISCOVERY_TOS for t in tv)
    if not (in_disc or out_disc):
        # a state that mixes discovery and foreign ToS values: the code did not look at ToS
        changed = not (s.unchanged('mapper_known', 1) and s.unchanged('mapper_real', 6))
        rep.check(not changed and nsent == 0, 'R05.1', 'mixed-tos|%s' % opclass(ops),
                  'frames with ToS %s (not only topology/quick discovery), opcode %s: mapper identity changed=%s, frames sent=%d'
                  % (s.tos, s.op, changed, nsent), function=fn, file='lltdResponder/lltdBlock.c', sample=desc)
        return
    if out_disc:
        ok = s.unchanged('mapper_known', 1) and s.unchanged('mapper_real', 6) and nsent == 0
        rep.check(ok, 'R05.1', 'foreign-tos|%s' % opclass(ops),
                  'a frame of a foreign service (ToS %s, opcode %s) %s' % (
                      s.tos, s.op, 'makes the responder transmit' if nsent else
                      'changes the active mapper (mapper_known %s -> %s, mapper address %s)' % (s.k_pre, short(s.k_post), 'kept' if s.unchanged('mapper_real', 6) else 'overwritten')),
                  function=fn, file='lltdResponder/lltdBlock.c', sample=desc)
        return
    # discovery services
    if ops == [OP['discover']]:
        key = 'discover|tos%s' % ','.join(str(t) for t in tv)
        if fault:
            # a platform fault may suppress the reply (C18); it must not hand the role to a stranger
            if s.k_pre.lo >= 1 and s.M is False:
                rep.check(s.unchanged('mapper_real', 6) and nsent == 0, 'R05.2', key + '|fault-stranger',
                          'on an allocation fault a Discover from another station changes the active mapper', function=fn, sample=desc)
            else:
                rep.ok('R05.2')
            return
        if s.k_pre.hi == 0:
            real = s.field_bytes('mapper_real', 6)
            from .dispatch import F_REAL_SRC
            ok = len(hello) == 1 and nsent == 1 and s.k_post_dom.lo >= 1 and tuple(real) == tuple(st.canon(b) for b in F_REAL_SRC)
            rep.check(ok, 'R05.2', key + '|free',
                      'no active mapper, Discover (ToS %s): sent %s, mapper_known afterwards %s, stored mapper %s the Discover\'s real source'
                      % (s.tos, [OPNAME.get(o, o) for o in s.opcodes_sent()] or 'nothing', s.k_post_dom, 'is' if tuple(real) == tuple(st.canon(b) for b in F_REAL_SRC) else 'is NOT'),
                      function=fn, sample=desc)
        elif s.k_pre.lo >= 1:
            if s.M is True:
                ok = len(hello) == 1 and nsent == 1 and s.k_post_dom.lo >= 1
                rep.check(ok, 'R05.2', key + '|active-same',
                          'Discover from the active mapper (ToS %s) is not answered by exactly one Hello (sent: %s)' % (s.tos, s.opcodes_sent() or 'nothing'),
                          function=fn, sample=desc)
            elif s.M is False:
                ok = nsent == 0 and s.unchanged('mapper_real', 6) and s.k_post_dom.lo >= 1
                rep.check(ok, 'R05.2', key + '|active-other',
                          'Discover from another station while a mapper is active (ToS %s): frames sent=%d, mapper address %s'
                          % (s.tos, nsent, 'kept' if s.unchanged('mapper_real', 6) else 'overwritten'), function=fn, sample=desc)
            else:
                rep.fail('R05.2', key + '|active-unchecked',
                         'with a mapper active, a Discover (ToS %s) is handled without comparing its real source with the active mapper (%s)'
                         % (s.tos, 'a Hello is sent to any station' if hello else 'the active mapper gets no reply'), function=fn, detail=desc,
                         file='lltdResponder/lltdBlock.c')
        else:
            rep.fail('R05.2', key + '|known-unchecked',
                     'Discover (ToS %s) handled without consulting whether a mapper is active (%s)' % (s.tos, 'Hello sent' if hello else 'silence'),
                     function=fn, detail=desc, file='lltdResponder/lltdBlock.c')
        return
    if ops == [OP['reset']]:
        ok = s.k_post_dom.hi == 0 and nsent == 0
        rep.check(ok, 'R05.3', 'reset|tos%s' % ','.join(str(t) for t in tv),
                  'Reset (ToS %s) leaves mapper_known = %s (must release the mapper)%s' % (s.tos, s.k_post_dom, ', and transmits' if nsent else ''),
                  function=fn, file='lltdResponder/lltdBlock.c', sample=desc)
        return
    commands = {OP['emit'], OP['query'], OP['queryLargeTlv']}
    if set(ops) <= commands:
        # unconstrained for strangers; the active mapper's own command must not release it
        if s.k_pre.lo >= 1:
            rep.check(s.k_post_dom.lo >= 1, 'R05.4', 'command|%s|release' % opclass(ops),
                      'a %s while a mapper is active releases it (mapper_known -> %s)' % (opclass(ops), s.k_post_dom), function=fn, sample=desc)
        else:
            rep.ok('R05.4')
        # only an ACCEPTED frame opens a session: a path on which the command is dropped (nothing transmitted, no other
        # field of the record touched - not even its sequence number adopted) must not make its sender the mapper
        if not (s.unchanged('mapper_known', 1) and s.unchanged('mapper_real', 6)):
            other = s.changed_fields(('mapper_known', 'mapper_real', 'mapper_apparent'))
            rep.check(nsent >= 1 or bool(other), 'R05.6', 'command|%s|tos%s|dropped-opens' % (opclass(ops), ','.join(str(t) for t in tv)),
                      'a %s (ToS %s) that the responder drops - nothing is transmitted and no other field of the interface record changes - '
                      'nevertheless makes its sender the active mapper (mapper_known %s -> %s): an ignored frame opens a session'
                      % (opclass(ops), s.tos, s.k_pre, s.k_post_dom), function=fn, file='lltdResponder/lltdBlock.c', sample=desc)
        return
    # everything else: identity untouched, no Hello
    ok = s.unchanged('mapper_known', 1) and s.unchanged('mapper_real', 6) and not hello
    rep.check(ok, 'R05.4', 'other|tos%s|%s' % (','.join(str(t) for t in tv), opclass(ops)),
              'frame with ToS %s opcode %s changes the mapper identity (known %s -> %s) or triggers a Hello'
              % (s.tos, s.op, s.k_pre, short(s.k_post)), function=fn, file='lltdResponder/lltdBlock.c', sample=desc)


def opclass(ops):
    if len(ops) == 1:
        return OPNAME.get(ops[0], str(ops[0]))
    if len(ops) > 6:
        return 'op[%d..%d](%d)' % (ops[0], ops[-1], len(ops))
    return '+'.join(OPNAME.get(o, str(o)) for o in ops)
