"""C06 — an Emit is executed descriptor by descriptor and then acknowledged.

The Emit cell of the dispatch matrix is interpreted; its descriptor loop is
summarised by one symbolic iteration k (closed forms i = k, offset = 14*k,
bounded by the MTU-derived clamp).  Every variant of that iteration is
checked: pause origin, frame addresses, kind, real source, and the ACK being
sent exactly in the last iteration."""
from ..common import Report, finish
from ..facts import AnalysisBroken
from ..terms import C, ZERO, short, is_const, lin_of, Lin, INF, term_of_lin, mk_cat
from .. import mem
from .dispatch import analyse, OP, OPNAME, fail_obligations, frame_bytes
from .c03 import own_mac_byte
from .frame_common import FrameSetup, run_regions, Snap, KNOWN
from .automata_common import load_core

DESC = 14
FIRST = 34


def desc_byte(k, rel):
    """Input atom for byte `rel` of descriptor k (k symbolic)."""
    return ('in', 'frame', term_of_lin(Lin({k: DESC}, FIRST + rel)))


def run(tier):
    rep = Report('C06', tier)
    prog = load_core('systemd')
    # premise of everything decided per interface record: the lookup hands out the record keyed by the interface (hit only after
    # comparing the context), creates an all-zero one only on a miss, and never stores into or re-links an existing record
    rep.rule('R06.8', 'the interface-record lookup: hit only on an equal context, fresh record all-zero and keyed by the context, existing records untouched', floor=3)
    from .state_record import check_state_for_iface
    check_state_for_iface(rep, prog, 'R06.8')
    rep.rule('R06.1', 'descriptor loop: the k-th iteration reads descriptor k at 34+14k inside the frame, trip count bounded by the MTU-derived capacity', floor=3)
    rep.rule('R06.2', 'per descriptor: exactly one pause with this descriptor\'s pause byte, then exactly one Probe/Train', floor=4)
    rep.rule('R06.3', 'Probe/Train: Ethernet source/destination = descriptor source/destination, kind as requested, real source = own MAC', floor=20)
    rep.rule('R06.4', 'ACK: sent exactly in the last iteration, after the probe, sequence = the Emit\'s, Ethernet destination = apparent mapper, real destination = mapper', floor=8)
    rep.rule('R06.5', 'an Emit whose sender may be the active mapper is executed: every path through the Emit cell walks the descriptors (except out-of-memory / sender known not to be the mapper)', floor=2)
    rep.rule('R06.6', 'trip count = min(n, capacity) with n the Emit\'s big-endian descriptor count: executed iterations have k < n; the loop ends only at k >= n or k >= capacity', floor=3)
    for mtu_ok in ([True] if tier == 'quick' else [True, False]):
        fs = FrameSetup(prog, mtu_ok=mtu_ok)
        fs.keep_iter_states = True
        rc0 = ('sym', 'rc.send_frame.0', -(1 << 31), (1 << 31) - 1)
        from .frame_common import TOS, OPC, KNOWN
        res, obs, stats = run_regions(fs, regions=['topo.emit'], jobs=1, tracked=(TOS, OPC, rc0))
        tag = '' if mtu_ok else '|mtu-fallback'
        loops = stats['topo.emit']['loops']
        # the descriptor loop: the loop of the Emit cell whose iterations transmit (whatever the handler is called)
        lid = [l for l in loops if any(any(e[0] == 'send' for e in tr) for _k, tr, _s in (loops[l].get('iter_states') or []))]
        if len(lid) != 1:
            raise AnalysisBroken('expected exactly one transmitting loop in the Emit cell, found %s (loops %s)' % (lid, sorted(loops)))
        info = loops[lid[0]]
        k = ('sym', 'iter:' + lid[0], 0, INF)
        ind = info['induction']
        fnf = 'lltdResponder/lltdBlock.c'
        # (no demand on how the loop counts - up, down, by pointer: descriptor k is located through the iteration number k,
        #  and `last` is decided from the loop condition after the iteration)
        fail_obligations(rep, obs, 'R06.1', kinds=('bounds',))
        iters = info['iter_states'] or []
        if not iters:
            raise AnalysisBroken('no iteration states recorded for the Emit loop')
        nprobe = 0
        for kind, trace, st in iters:
            check_iteration(rep, fs, st, trace, k, tag, kind)
            nprobe += 1
        # trip count: every executed iteration index k is below the capacity of an MTU-sized frame
        cap = ('div', ('add', fs.frame_size if mtu_ok else C(1500), C(-FIRST)), C(DESC))
        for kind, trace, st in iters:
            okb = st.prove_lt(k, cap)
            rep.check(okb, 'R06.1', 'loop|trip-count' + tag,
                      'an iteration with index %s is executed although a frame can carry only floor((MTU-34)/14) = %s descriptors' % (st.dom(k), st.dom(cap)),
                      function='parseEmit', file=fnf, sample={'iteration_index': repr(st.dom(k)), 'capacity': repr(st.dom(cap))} if len(rep.samples) < 4 else None)
        # the number of descriptors executed is the Emit's own count n (big-endian at octets 32..33), cut to the capacity:
        # every executed iteration has k < n, and the loop is left through its condition only once k >= n or k >= capacity
        n_req = mk_cat((('in', 'frame', 33), ('in', 'frame', 32)))
        for kind, trace, st in iters:
            rep.check(st.prove_lt(k, n_req), 'R06.6', 'loop|within-count' + tag,
                      'iteration %s is executed although it is not known to be below the Emit\'s descriptor count BE16(frame[32..33]) = %s: '
                      'more descriptors are executed than the Emit carries' % (st.dom(k), st.dom(n_req)), function='parseEmit', file=fnf)
        exits = info.get('exit_snaps') or []
        if not exits:
            raise AnalysisBroken('no exit state recorded for the Emit loop')
        # a final descriptor executed after the loop (peeled last iteration): the effects that follow the loop in the cell's
        # final states; it counts as iteration number k_exit
        tails = []
        for stf, _ret in res['topo.emit']:
            if any(e[0] == 'malloc-failed' for e in stf.trace):
                continue
            idx = [i_ for i_, e in enumerate(stf.trace) if e[0] == 'loop' and e[1] == lid[0]]
            after = stf.trace[idx[-1] + 1:] if idx else ()
            if not idx and not any(str(t_) == 'exit:' + lid[0] or str(t_).startswith('next:') for t_ in stf.tags):
                # the loop ran zero times on this path (or was never reached): everything the path did counts as "after"
                after = stf.trace
            after = tuple(e for e in after if e[0] != 'last-iteration')
            if any(e[0] == 'send' for e in after):
                tails.append((stf, after))
        peeled = bool(tails)
        if peeled:
            # the other paths through the loop are tails too (a final descriptor of unknown kind yields nothing, as in the loop)
            for stf, _ret in res['topo.emit']:
                if any(stf is t_[0] for t_ in tails) or any(e[0] == 'malloc-failed' for e in stf.trace):
                    continue
                idx = [i_ for i_, e in enumerate(stf.trace) if e[0] == 'loop' and e[1] == lid[0]]
                if idx:
                    tails.append((stf, tuple(e for e in stf.trace[idx[-1] + 1:] if e[0] != 'last-iteration')))
        if MISSING_LAST and not peeled:
            rep.fail('R06.4', 'ack|missing-on-last' + tag, 'no ACK is sent in an iteration that may be the last descriptor (and no final descriptor is executed after the loop)',
                     function='sendProbeMsg', file=fnf)
        del MISSING_LAST[:]
        one = C(1)
        for stf, after in tails:
            check_iteration(rep, fs, stf, after, k, tag + '|tail', 'break')
            rep.check(stf.prove_lt(k, n_req) and stf.prove_lt(k, cap), 'R06.6', 'tail|within-count' + tag,
                      'the descriptor executed after the loop has index %s, not known to be below the Emit\'s count %s and the capacity %s' % (stf.dom(k), stf.dom(n_req), stf.dom(cap)),
                      function='parseEmit', file=fnf)
        k1 = ('add', k, one)
        if peeled:
            # (on the loop's own exit states: the cell's final states have merged the clamped and the unclamped branch)
            for st in exits:
                rep.check(st.prove_le(n_req, k1) or st.prove_le(cap, k1), 'R06.6', 'tail|complete' + tag,
                          'with the loop left after %s iteration(s) and one final descriptor after it, neither the Emit\'s count %s nor the capacity %s is known to be reached'
                          % (st.dom(k), st.dom(n_req), st.dom(cap)), function='parseEmit', file=fnf)
        if not peeled:
            for st in exits:
                done = st.prove_le(n_req, k) or st.prove_le(cap, k)
                rep.check(done, 'R06.6', 'loop|complete' + tag,
                          'the descriptor loop is left after %s iteration(s) although neither the Emit\'s count BE16(frame[32..33]) = %s nor the capacity %s is known to be reached: '
                          'descriptors the Emit carries are not executed' % (st.dom(k), st.dom(n_req), st.dom(cap)), function='parseEmit', file=fnf)
        # an Emit is executed whenever its sender may be the active mapper: every path through the Emit cell reaches the
        # descriptor loop, unless the responder is out of memory or knows the sender is NOT the active mapper
        # (a mapper is recorded and its real address differs from the Emit's real source)
        nreach = 0
        for st, ret in res['topo.emit']:
            reached = any(e[0] == 'loop' and e[1] == lid[0] for e in st.trace)
            if reached:
                nreach += 1
                rep.ok('R06.5')
                continue
            if any(e[0] == 'malloc-failed' for e in st.trace):
                rep.ok('R06.5')
                continue
            foreign = st.tags.get('pred:M') is False and st.dom(KNOWN).lo >= 1
            if st.dom(n_req).hi == 0 or any(e[0] == 'send' for e in st.trace):
                # an Emit without descriptors, or a single descriptor executed outside the loop
                rep.ok('R06.5')
                continue
            rep.check(foreign, 'R06.5', 'emit|dropped' + tag,
                      'a path through the Emit cell returns without walking the descriptors although the sender may be the active mapper '
                      '(mapper recorded: %s; real source equals recorded mapper: %s; path conditions: %s)'
                      % (st.dom(KNOWN), {True: 'yes', False: 'no', None: 'not tested'}[st.tags.get('pred:M')], [c for c, _ in st.path][-3:]),
                      function='parseEmit', file=fnf)
        if not nreach:
            rep.fail('R06.5', 'emit|never' + tag, 'no path through the Emit cell walks the descriptors', function='parseEmit', file=fnf)
        rep.analysed.update({'iteration_variants': len(iters), 'induction': {str(a): b for a, b in ind.items()}})
    apparent_mapper_stable(rep)
    return finish(rep, 'proof',
                  'The Emit cell is interpreted with the descriptor loop summarised by one symbolic iteration k (affine closed forms verified inductively). '
                  'Each iteration variant (kind 0/1/other, last/not last, fault paths) is checked for pause origin, ordering, addresses and the ACK condition; '
                  '"exactly n frames in order" follows by induction over k together with the trip-count bound.',
                  'abstract interpretation with inductive loop summary; per-iteration effect/origin checks', exhaustive=True)


def apparent_mapper_stable(rep):
    """R06.7: the ACK goes to the stored apparent (Ethernet) address of the mapper.  That address is the Ethernet source of the
    mapper's last request; in the complete dispatch matrix only the request cells (Discover, Emit, Query, QueryLargeTlv of the
    discovery services) may write it, and then from that frame's Ethernet source - a Probe, Hello or foreign frame must not."""
    from .dispatch import analyse, F_ETH_SRC
    from .frame_common import record_field
    fs2, sums, _obs, _stats = analyse(mtu_ok=True)
    role = record_field(fs2.srec, 'mapper_apparent')[0]
    rep.rule('R06.7', 'the apparent mapper address the ACK is sent to is written only by the mapper\'s requests (Discover / Emit / Query / QueryLargeTlv of the discovery services), from that frame\'s Ethernet source; no other cell rewrites it', floor=20)
    REQUESTS = {OP['discover'], OP['emit'], OP['query'], OP['queryLargeTlv']}
    n = 0
    for region, lst in sorted(sums.items()):
        for s in lst:
            n += 1
            if role not in s.changed_fields(()):
                rep.ok('R06.7')
                continue
            got = s.field_bytes('mapper_apparent', 6)
            want = tuple(s.st.canon(b) for b in F_ETH_SRC)
            request = all(t in (0, 1) for t in s.tos.values()) and set(s.op.values()) <= REQUESTS
            # (a cell that leaves no mapper known - the Reset - may wipe the address with the rest of the record: nothing reads
            #  it until a request of the next mapper has stored its own, which C09 decides)
            forgotten = s.st.canon(s.k_post) == ZERO
            ok = (request and tuple(got) == want) or forgotten
            rep.check(ok, 'R06.7', 'apparent|%s' % region,
                      'a frame (ToS %s, opcode %s) rewrites the stored apparent mapper address %s: the ACK of the next Emit goes to an address that is not the one '
                      'the mapper sent its requests from' % (s.tos, s.op, 'although it is not a request of the mapper (Discover / Emit / Query / QueryLargeTlv)' if not request
                                                             else 'with something other than its Ethernet source'),
                      function='parseFrame', file='lltdResponder/lltdBlock.c')
    if n == 0:
        raise AnalysisBroken('dispatch matrix empty')


MISSING_LAST = []


def check_iteration(rep, fs, st, trace, k, tag, kind):
    fnf = 'lltdResponder/lltdBlock.c'
    effs = [e for e in trace if e[0] in ('sleep', 'send', 'malloc-failed')]
    sleeps = [e for e in trace if e[0] == 'sleep']
    snds = [Snap(st, e[1]) for e in trace if e[0] == 'send']
    fault = any(e[0] == 'malloc-failed' for e in trace)
    tyb = st.dom(desc_byte(k, 0))
    valid = tyb.hi <= 1
    if not valid and tyb.lo <= 1:
        # a path that did not distinguish valid from invalid kinds
        if snds:
            rep.fail('R06.3', 'iter|kind-unchecked' + tag, 'a frame is emitted for a descriptor whose kind was not checked (%s)' % tyb, function='parseEmit', file=fnf)
        elif not fault:
            # nothing is sent although the descriptor may be of a valid kind: some other test (on its addresses, its pause,
            # ...) lets a valid descriptor go without its Probe/Train - and without the ACK if it was the last one
            rep.fail('R06.2', 'iter|valid-kind-no-frame' + tag, 'an iteration transmits nothing although the descriptor may be a valid Probe/Train request (kind %s): '
                     'every descriptor of kind 0/1 must yield its pause and its frame, whatever its addresses' % tyb, function='parseEmit', file=fnf)
        return
    if not valid:
        rep.check(not snds, 'R06.2', 'iter|invalid-kind' + tag, 'descriptor of unknown kind %s still makes the responder transmit' % tyb, function='parseEmit', file=fnf)
        return
    if fault:
        rep.ok('R06.2')
        return
    probes = [s for s in snds if st.canon(s.byte(17)) in (C(OP['probe']), C(OP['train']))]
    acks = [s for s in snds if st.canon(s.byte(17)) == C(OP['ack'])]
    order = [e[0] for e in effs]
    rep.check(len(sleeps) == 1 and len(probes) == 1 and order.index('sleep') < order.index('send'), 'R06.2', 'iter|pause-then-send' + tag,
              'one descriptor leads to %d pause(s) and %d Probe/Train frame(s) in order %s; expected pause then exactly one frame' % (len(sleeps), len(probes), order),
              function='sendProbeMsg', file=fnf, sample={'kind': repr(tyb), 'effects': order})
    if sleeps:
        got = st.canon(sleeps[0][1])
        rep.check(st.same(got, desc_byte(k, 1)), 'R06.2', 'iter|pause-origin' + tag, 'pause before the frame is %s, not this descriptor\'s pause byte' % short(got),
                  function='sendProbeMsg', file=fnf)
    for p in probes:
        want_op = C(OP['probe']) if tyb.lo == 1 else C(OP['train'])
        rep.check(st.canon(p.byte(17)) == want_op, 'R06.3', 'iter|kind' + tag, 'descriptor kind %s is emitted as opcode %s' % (tyb, short(st.canon(p.byte(17)))),
                  function='sendProbeMsg', file=fnf)
        for i in range(6):
            rep.check(st.same(p.byte(6 + i), desc_byte(k, 2 + i)), 'R06.3', 'iter|eth-src' + tag,
                      'Probe/Train Ethernet source byte %d is %s, not the descriptor\'s source address' % (i, short(st.canon(p.byte(6 + i)))), function='sendProbeMsg', file=fnf)
            rep.check(st.same(p.byte(i), desc_byte(k, 8 + i)), 'R06.3', 'iter|eth-dst' + tag,
                      'Probe/Train Ethernet destination byte %d is %s, not the descriptor\'s destination address' % (i, short(st.canon(p.byte(i)))), function='sendProbeMsg', file=fnf)
            rep.check(own_mac_byte(st, p.byte(24 + i), i), 'R06.3', 'iter|real-src' + tag, 'Probe/Train real source is not the own address', function='sendProbeMsg', file=fnf)
    # ACK condition
    nxt = [v for t_, v in st.tags.items() if str(t_).startswith('next:')]
    if kind in ('break', 'return'):
        last, notlast = True, False
    else:
        last = bool(nxt) and nxt[0] == 'F'         # the loop condition is false after this iteration
        notlast = bool(nxt) and nxt[0] == 'T'      # ... true: another descriptor follows
    sent_ok = len(probes) == 1
    if acks:
        rep.check(bool(last), 'R06.4', 'ack|only-last' + tag, 'an ACK is sent in an iteration that is not known to be the last descriptor', function='sendProbeMsg', file=fnf)
        a = acks[0]
        rep.check(len(acks) == 1 and snds.index(a) == len(snds) - 1 and len(probes) == 1, 'R06.4', 'ack|after-probe' + tag, 'ACK is not the single last frame of the iteration',
                  function='sendProbeMsg', file=fnf)
        rep.check(st.same(a.byte(30), ('in', 'frame', 30)) and st.same(a.byte(31), ('in', 'frame', 31)), 'R06.4', 'ack|seq' + tag,
                  'ACK sequence bytes are %s %s, not the Emit\'s sequence number' % (short(st.canon(a.byte(30))), short(st.canon(a.byte(31)))), function='sendProbeMsg', file=fnf)
        kn = st.dom(KNOWN)
        for i in range(6):
            if kn.hi == 0:
                want_app, want_real = ('in', 'frame', 6 + i), ('in', 'frame', 24 + i)
            else:
                want_app, want_real = ('in', 'st', fs.soff('mapper_apparent') + i), ('in', 'st', fs.soff('mapper_real') + i)
            if kn.hi == 0 or kn.lo >= 1:
                rep.check(st.same(a.byte(i), want_app), 'R06.4', 'ack|eth-dst' + tag, 'ACK Ethernet destination byte %d is %s, not the apparent mapper address' % (i, short(st.canon(a.byte(i)))),
                          function='sendProbeMsg', file=fnf)
                rep.check(st.same(a.byte(18 + i), want_real), 'R06.4', 'ack|real-dst' + tag, 'ACK real destination byte %d is %s, not the mapper\'s real address' % (i, short(st.canon(a.byte(18 + i)))),
                          function='sendProbeMsg', file=fnf)
            rep.check(own_mac_byte(st, a.byte(24 + i), i) and own_mac_byte(st, a.byte(6 + i), i), 'R06.4', 'ack|src' + tag, 'ACK is not sourced from the own address', function='sendProbeMsg', file=fnf)
    else:
        # no ACK: must not be the last iteration, unless the probe transmit was refused
        refused = False
        for e in trace:
            if e[0] == 'send':
                pass
        rcs = [a for a in st.env if a[0] == 'sym' and str(a[1]).startswith('rc.send_frame.')]
        refused = any(st.dom(a).hi < 0 for a in rcs)
        if kind == 'continue' and sent_ok and not refused:
            if not notlast:
                # decided after the loop: the last descriptor may have been taken out of the loop (peeled final iteration)
                MISSING_LAST.append(tag)
            rep.ok('R06.4')
        else:
            rep.ok('R06.4')
