"""C14 — the mapping engine follows its state machine and times out.

The constructor is interpreted to obtain the table; the switch function is
interpreted from every state with an arbitrary int input and arbitrary elapsed
time; the resulting complete transition relation is compared with the oracle
written from the property text.  The tick's 30 s inactivity handling is
interpreted the same way."""
from ..common import Report, finish
from ..facts import AnalysisBroken
from ..facts import WORD as W
from ..terms import C, ZERO, INF, short, Dom, is_const
from ..engine import run_entry, mk_obj
from ..absint import Val
from ..port import PortModel
from .. import oracle
from .automata_common import load_core, Automaton, AUTOMATA_UNIT, collect_failures

IN_LO, IN_HI = -128, 255


def check_relation(rep, A, roles, oracle_fn, in_lo, in_hi, rule, names, prop):
    """Compare the interpreted relation of automaton A with oracle_fn(role, input, cls) -> set of allowed roles."""
    role_of = {v: k for k, v in roles.items()}
    cells = 0
    for s in range(A.states_no):
        if s not in role_of:
            rep.fail(rule, 'state|%d' % s, 'state %d of %s is not reachable by the documented life-cycle (no role)' % (s, A.ctor))
            continue
        I, res = A.step_relation(s)
        collect_failures(rep, I, rule + '.ub')
        covered = {}
        inp = ('sym', 'input', -(1 << 31), (1 << 31) - 1)
        for s2, ns, dom, cls, lts in res:
            classes = [cls]
            if cls == 'unclassified':
                rep.fail(rule + '.t', '%s|boundary' % role_of[s],
                         'timeout test of state %s is not the strict "elapsed > timeout": a path is neither elapsed<=%d nor elapsed>%d'
                         % (role_of[s], A.timeouts[s], A.timeouts[s]), function=A.switch, node=A.ix.functions[A.switch])
                classes = ['fresh', 'expired']
            if not (lts[0] == 'sym' and str(lts[1]).startswith('clock.s.')):
                rep.fail(rule + '.ts', '%s|last_ts' % role_of[s], 'last timestamp after a step is %s, not the current clock' % short(lts),
                         function=A.switch)
            lo, hi = max(in_lo, dom.lo), min(in_hi, dom.hi)
            vals = [v for v in range(int(lo), int(hi) + 1) if dom.contains(v)] if lo <= hi else []
            for v in vals:
                # is this input value feasible on this abstract path?
                s3 = s2.fork()
                if not (I.assume(s3, ('eq', inp, C(v)), True) and s3.consistent()):
                    continue
                for cl in classes:
                    covered.setdefault(cl, set()).add(v)
                    allowed = oracle_fn(role_of[s], v, cl)
                    cells += 1
                    got = role_of.get(ns, 'state%d' % ns)
                    if allowed is None or got in allowed:
                        rep.ok(rule)
                    else:
                        rep.fail(rule, '%s|%s|%s' % (role_of[s], names.get(v, v), cl),
                                 '%s: in state %s, input %s (%s), %s: goes to %s, the life-cycle requires %s'
                                 % (A.switch, role_of[s], v, names.get(v, 'no event'), {'fresh': 'timeout not expired', 'expired': 'timeout expired', 'none': 'state without timeout'}[cl],
                                    got, '/'.join(sorted(allowed))), function=A.switch, node=A.ix.functions[A.switch])
        need = ['none'] if A.timeouts[s] == 0 else ['fresh', 'expired']
        for cls in need:
            miss = [v for v in range(in_lo, in_hi + 1) if v not in covered.get(cls, ())]
            if miss:
                rep.broke('%s state %s class %s: %d inputs not covered by the abstract result (e.g. %s)' % (A.switch, role_of[s], cls, len(miss), miss[:5]))
        rep.samples.append({'state': role_of[s], 'paths': [{'to': role_of.get(ns, ns), 'input': repr(dom), 'class': cls} for _, ns, dom, cls, _ in res]})
    return cells


def run(tier):
    rep = Report('C14', tier)
    prog = load_core('systemd')
    A = Automaton(prog, 'init_automata_mapping', 'switch_state_mapping')
    rep.rule('R14.1', 'complete transition relation of switch_state_mapping equals the oracle (state x input in [-128,255] x {fresh,expired})', floor=3 * 384)
    rep.rule('R14.2', 'timeouts of active states are non-zero and at most 30 s; idle has none', floor=3)
    rep.rule('R14.3', 'tick: inactivity deadline expired => mapping idle, charge counter cleared, session table emptied (from every state, idle included)', floor=6)
    rep.rule('R14.4', 'mapping_reset_inactive_timeout arms a 30 s deadline', floor=1)
    rep.rule('R14.5', 'tick: while the 30 s inactivity deadline is unarmed or has not expired, the tick leaves the mapping state where it is', floor=3)
    # roles from the documented life-cycle
    op = oracle.OPCODES
    roles = {'idle': A.initial}
    def target(frm, w):
        t = None
        for f, to, wi in A.rows:
            if f == frm and wi == w:
                t = to
        return t
    cmd = target(A.initial, op['discover'])
    if cmd is None or cmd == A.initial:
        rep.fail('R14.1', 'idle|discover', 'a Discover does not open a session from the idle state', function=A.ctor)
        return finish(rep, 'proof', 'mapping automaton', 'abstract interpretation of constructor + switch function; relation compared with oracle')
    roles['command'] = cmd
    em = target(cmd, op['emit'])
    if em is None or em in (A.initial, cmd):
        rep.fail('R14.1', 'command|emit', 'an Emit does not move Command to a distinct Emit state', function=A.ctor)
        return finish(rep, 'proof', 'mapping automaton', 'abstract interpretation of constructor + switch function; relation compared with oracle')
    roles['emit'] = em
    names = {v: k for k, v in op.items()}
    names.update({-1: 'end/timeout', -2: 'emit-continue', -3: 'emission-complete'})
    cells = check_relation(rep, A, roles, oracle.mapping_step, IN_LO, IN_HI, 'R14.1', names, 'C14')
    # timeouts
    for role, s in roles.items():
        T = A.timeouts[s]
        if role == 'idle':
            rep.check(T == 0, 'R14.2', 'idle|timeout', 'idle state has a timeout of %d s: it would leave idle without any frame' % T, function=A.ctor)
        else:
            rep.check(0 < T <= 30, 'R14.2', '%s|timeout' % role,
                      'state %s has timeout %d s; the property requires non-zero and at most 30 s' % (role, T), function=A.ctor, node=A.ix.functions[A.ctor])
    tick_checks(rep, prog, A, roles)
    from .automata_common import automaton_writers
    rep.rule('R14.6', 'who-may-write the automaton objects (current state, time stamp, tables): only constructors, switch functions and the tick', floor=6)
    automaton_writers(rep, prog, 'R14.6')
    rep.analysed.update({'table_rows': A.rows, 'timeouts': A.timeouts, 'roles': roles, 'cells_compared': cells})
    return finish(rep, 'proof',
                  'The constructor table and the switch function are interpreted abstractly (input = every int, elapsed = symbolic); '
                  'the code\'s own comparisons partition the input space, giving the complete relation, compared cell by cell with the oracle. '
                  'Histories follow by induction: the only memory is (state, last timestamp) and the timestamp is shown to be reset to the clock on every step.',
                  'abstract interpretation (finite-set/interval + linear facts) of real constructor/switch/tick code; relation vs oracle',
                  exhaustive=True)


def mapping_roles(A):
    """idle / command / emit state numbers from the transition table, or None when the life-cycle is not there."""
    op = oracle.OPCODES
    def target(frm, w):
        t = None
        for f, to, wi in A.rows:
            if f == frm and wi == w:
                t = to
        return t
    cmd = target(A.initial, op['discover'])
    if cmd is None or cmd == A.initial:
        return None
    em = target(cmd, op['emit'])
    if em is None or em in (A.initial, cmd):
        return None
    return {'idle': A.initial, 'command': cmd, 'emit': em}


def tick_checks(rep, prog, A, roles):
    from .. import mem as mem_
    ix = prog.unit(AUTOMATA_UNIT)
    for f in ('automata_tick', 'mapping_reset_inactive_timeout', 'session_table_clear', 'mapping_reset_charge'):
        if f not in ix.functions:
            raise AnalysisBroken('anchor function %s vanished' % f)
    mrec = ix.parse_type('mapping_state').rec
    trec = ix.parse_type('session_table').rec
    # R14.4
    st = A.state0.fork()
    st.trace, st.tags = (), {}
    mo = mk_obj(st, 'in:mstate', mrec.size, kind='heap', default='sym')
    def setup4(I, st):
        return [Val(ix.parse_type('mapping_state *'), ('ptr', 'in:mstate', ZERO))]
    I, outs = run_entry(prog, AUTOMATA_UNIT, 'mapping_reset_inactive_timeout', setup4, port=PortModel(), state=st)
    collect_failures(rep, I, 'R14.4.ub')
    for s2, _ in outs:
        cell = s2.objs['in:mstate'].cells.get(((), mrec.field('inactive_timeout_ts')[1]))
        t = s2.canon(cell[1]) if cell else None
        from ..terms import lin_of
        ok = False
        if t is not None:
            l = lin_of(t)
            clk = [a for a in l.co if a[0] == 'sym' and str(a[1]).startswith('clock.s.')]
            ok = len(l.co) == 1 and len(clk) == 1 and l.co[clk[0]] == 1 and l.k == 30
        rep.check(ok, 'R14.4', 'mapping_reset_inactive_timeout|deadline',
                  'inactivity deadline is armed as %s, expected clock + 30 s' % (short(t) if t else 'nothing'),
                  function='mapping_reset_inactive_timeout', sample={'deadline': short(t) if t else None})
    # R14.3: tick with expired deadline from each active state
    # ... and from idle: a late frame can have dropped the engine to idle through its own state timeout while the deadline
    # stays armed and the session table still holds the mapper - the tick must tear that down all the same
    for role in ('command', 'emit', 'idle'):
        s = roles[role]
        st = A.state0.fork()
        st.trace, st.tags = (), {}
        a = st.objs[A.oid]
        a.cells[((), A.field_off('current_state'))] = (1, C(s))
        lt = ('sym', 'last_ts@entry', 0, 1 << 62)
        a.cells[((), A.field_off('last_ts'))] = (8, lt)
        st.tags['clkfloor.s'] = (lt,)
        # mapping->extra must point to a mapping_state
        ms = mk_obj(st, 'in:mstate', mrec.size, kind='heap', default='sym')
        a.cells[((), A.field_off('extra'))] = (W, ('ptr', 'in:mstate', ZERO))
        D = ('sym', 'deadline', 1, 1 << 62)
        ms.cells[((), mrec.field('inactive_timeout_ts')[1])] = (8, D)
        tb = mk_obj(st, 'in:sessions', trec.size, kind='heap', default='sym')
        def setup3(I, st):
            return [Val(ix.parse_type('automata *'), A.ret.t), Val(ix.parse_type('automata *'), ZERO),
                    Val(ix.parse_type('session_table *'), ('ptr', 'in:sessions', ZERO)),
                    Val(ix.parse_type('const lltd_automata_tick_port *'), ZERO)]
        I, outs = run_entry(prog, AUTOMATA_UNIT, 'automata_tick', setup3, port=PortModel(), state=st,
                            name='automata_tick[mapping=%s]' % role)
        collect_failures(rep, I, 'R14.3.ub')
        fired = 0
        for s2, _ in outs:
            # the clock reading used for the deadline test is a seconds clock; expired means some clock.s >= D
            exp = any(s2.prove_le(D, ('sym', 'clock.s.%d' % i, 0, 1 << 63)) for i in range(s2.tags.get('clk.s', 0)))
            if not exp:
                a2 = s2.objs[A.oid]
                cs = s2.dom(a2.cells[((), A.field_off('current_state'))][1])
                rep.check(cs.const() == s, 'R14.5', '%s|tick-quiet' % role,
                          'a tick on which the 30 s inactivity deadline has not expired moves the mapping engine from %s to state %s: only frames (and that deadline) may move it'
                          % (role, cs), function='automata_tick')
                # ... and the armed deadline itself survives the tick (whatever else this tick does - charge timeout, Hello pacing):
                # a tick that disarms it leaves a silent session open for ever
                dl = s2.canon(mem_.load_scalar(s2, s2.objs['in:mstate'], C(mrec.field('inactive_timeout_ts')[1]), ix.parse_type('unsigned long long')))
                rep.check(s2.same(dl, D), 'R14.5', '%s|tick-keeps-deadline' % role,
                          'a tick on which the armed 30 s inactivity deadline has not expired leaves it as %s: the silence of the mapper is no longer timed and its session never ends'
                          % short(dl), function='automata_tick')
                continue
            fired += 1
            a2 = s2.objs[A.oid]
            cs = s2.dom(a2.cells[((), A.field_off('current_state'))][1])
            rep.check(cs.const() == roles['idle'], 'R14.3', '%s|state' % role,
                      'tick with expired 30 s inactivity deadline leaves the mapping engine in state %s instead of idle' % cs, function='automata_tick')
            m2 = s2.objs['in:mstate']
            from .. import mem
            ctc = s2.canon(mem.load_scalar(s2, m2, C(mrec.field('ctc')[1]), ix.parse_type('unsigned char')))
            rep.check(ctc == ZERO, 'R14.3', '%s|ctc' % role, 'tick with expired inactivity deadline leaves charge counter %s' % short(ctc), function='automata_tick')
            t2 = s2.objs['in:sessions']
            cnt = s2.canon(mem.load_scalar(s2, t2, C(trec.field('count')[1]), ix.parse_type('unsigned char')))
            rep.check(cnt == ZERO, 'R14.3', '%s|sessions.count' % role, 'session table count after inactivity timeout is %s, not 0' % short(cnt), function='automata_tick')
            erec = ix.parse_type('session_entry').rec
            allz = True
            for i in range(16):
                v = s2.canon(mem.load_scalar(s2, t2, C(trec.field('entries')[1] + i * erec.size + erec.field('valid')[1]), ix.parse_type('unsigned char')))
                allz = allz and v == ZERO
            rep.check(allz, 'R14.3', '%s|sessions.entries' % role, 'session entries remain valid after the inactivity timeout', function='automata_tick')
        if fired == 0:
            rep.fail('R14.3', '%s|reach' % role, 'no path of automata_tick handles an expired inactivity deadline', function='automata_tick')
