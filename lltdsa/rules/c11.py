"""C11 — acknowledgement by the mapper is recognised from the Discover.

derive_session_event (non-testing build) is interpreted with the frame, the
session table and the own address symbolic.  Checked: the station-list layout
(6-byte stride from offset 36), the scan (from 0, step 1, compares exactly the
six bytes of entry k with the own address, leaves early only on a match), and
the complete result table over opcode x acking x known-session x changed-seq."""
import os
import re

from ..common import Report, finish
from ..facts import AnalysisBroken, walk, REPO
from ..engine import Engine, run_entry, mk_obj
from ..absint import Val
from ..port import PortModel
from ..terms import C, ZERO, INF, short, is_const, lin_of, Lin, mk_cat
from .. import oracle, mem
from .automata_common import load_core, AUTOMATA_UNIT

S = oracle.SESS
OP = oracle.OPCODES


def run(tier):
    rep = Report('C11', tier)
    prog = load_core('systemd')
    ix = prog.unit(AUTOMATA_UNIT)
    if 'derive_session_event' not in ix.functions:
        raise AnalysisBroken('anchor derive_session_event vanished')
    fn = ix.functions['derive_session_event']
    rep.rule('R11.a', 'Discover upper header layout: station list starts at frame offset 36 with a 6-byte stride', floor=2)
    rep.rule('R11.b', 'scan: the k-th iteration examines the six bytes at 36+6k, compared with the own address; early exit only on a match', floor=3)
    rep.rule('R11.e', 'a not-acknowledging verdict is reached only after the scan covered every entry below the count field (up to the 240 entries the property quantifies over)', floor=1)
    rep.rule('R11.d', 'the session lookup the classifier relies on scans every slot and matches exactly (valid, mapper address, generation) - for all table contents', floor=3)
    rep.rule('R11.c', 'result table: Reset -> topology-wide iff real destination is broadcast; Hello -> hello; Discover -> acking/not, changed-seq iff a known session has another sequence number; everything else -> no event', floor=8)
    from .c16 import Ctx, check_find
    check_find(rep, Ctx(prog), 'R11.d')
    # the classification is a function of the frame and the session table: nothing the classifier reaches may keep state of
    # its own between calls (a "last match" hint, a memo of the previous frame)
    from .c17 import mutable_statics, reachable
    rep.rule('R11.f', 'the classifier and everything it calls use no mutable static storage (the verdict depends on frame and table only)', floor=1)
    reach = reachable(prog, ix, 'derive_session_event')
    used = 0
    for name, (dix, rfn) in sorted(reach.items()):
        if not (rfn.get('_file') or '').startswith(os.path.join(REPO, 'lltdResponder') + os.sep):
            continue
        muts = {n_.get('id'): n_ for n_ in mutable_statics(dix)}
        for n_ in walk(rfn):
            if n_.get('kind') == 'DeclRefExpr' and (n_.get('referencedDecl') or {}).get('id') in muts:
                used += 1
                d_ = muts[n_['referencedDecl']['id']]
                rep.fail('R11.f', 'static|%s|%s' % (name, d_.get('name')),
                         '%s, reached from derive_session_event, uses the mutable static `%s`: the classification of a frame then depends on earlier calls, not only on '
                         'the frame and the table' % (name, d_.get('name')), node=n_, function=name)
    rep.ok('R11.f')
    # (a) layout
    t = ix.parse_type('lltd_discover_upper_header_t')
    f = t.rec.field('stationList')
    if f is None:
        raise AnalysisBroken('field stationList vanished')
    et = ix.parse_type(f[2])
    esz = ix.sizeof(et.to) if et.kind == 'arr' else None
    base = ix.parse_type('lltd_demultiplex_header_t').rec.size + f[1]
    rep.check(esz == 6, 'R11.a', 'layout|stride', 'station list elements are %s bytes apart (element type %s); the wire format has consecutive 6-byte addresses' % (esz, f[2]),
              file='lltdResponder/lltdProtocol.h', function='lltd_discover_upper_header_t', sample={'stride': esz, 'first_offset': base})
    rep.check(base == 36, 'R11.a', 'layout|offset', 'station list starts at frame offset %d, expected 36' % base, file='lltdResponder/lltdProtocol.h')

    # interpret the classifier
    trec = ix.parse_type('session_table').rec
    erec = ix.parse_type('session_entry').rec

    def find_summary(I, st, args, node, rty):
        ixx, f2 = I.prog.resolve(I.ix, 'session_table_find')
        outs = I.inline(st, ixx, f2, args, node, rty)
        for s2, v in outs:
            s2.tags['c11.existing'] = s2.canon(v.t)
            # every lookup the classifier makes, with the key it was made under
            s2.tags['c11.lookups'] = tuple(s2.tags.get('c11.lookups', ())) + ((tuple(s2.canon(a.t) for a in args[1:3]), s2.canon(v.t)),)
        return outs

    def setup(I, st):
        mk_obj(st, 'frame', PortModel.MTU, kind='input', default='sym')
        mk_obj(st, 'in:sessions', trec.size, kind='heap', default='sym')
        mk_obj(st, 'in:our_mac', 6, kind='heap', default='sym')
        cv = ix.parse_type('const void *')
        return [Val(cv, ('ptr', 'frame', ZERO)), Val(ix.parse_type('session_table *'), ('ptr', 'in:sessions', ZERO)),
                Val(ix.parse_type('const uint8_t *'), ('ptr', 'in:our_mac', ZERO))]
    E = Engine(prog, port=PortModel(), summaries={'session_table_find': find_summary})
    E.loop_info = {}
    E.keep_iter_states = True
    E.tag_loop_flags = True
    opc = ('in', 'frame', 17)
    cnt_t = mk_cat((('in', 'frame', 35), ('in', 'frame', 34)))
    E.tracked_preds = {'BC': [(('in', 'frame', 18 + i), C(0xFF)) for i in range(6)]}
    I, outs = run_entry(prog, AUTOMATA_UNIT, 'derive_session_event', setup, engine=E, tracked=(opc, cnt_t), name='derive_session_event')
    # the verdict is only meaningful when every byte it was computed from is a byte of the frame, the table or the own
    # address: a read outside any other object (a partial copy of the frame on the stack walked as if it were the frame) is
    # not (reads past the received length inside the MTU-sized frame buffer are C01's known finding, not this rule's)
    for ob in I.obs.values():
        if not ob.ok and ob.kind in ('bounds', 'uninit-read', 'dangling', 'wild-deref', 'null-deref') and ' of object frame ' not in ob.msg:
            rep.fail('R11.b', 'scan|ub|%s|%s' % (ob.fn, ob.kind), 'the classification is computed from memory that is not the frame: ' + ob.msg, node=ob.node, function=ob.fn)
    # (b) the scan loop
    # (the scan may live in derive_session_event or in a helper it was extracted into; the lookup is summarised, so
    #  every loop interpreted here belongs to the classifier)
    lids = sorted(I.loop_info)
    if not lids:
        rep.fail('R11.b', 'scan|no-loop', 'derive_session_event has no station-list scan', node=fn, function='derive_session_event')
    for lid in lids:
        info = I.loop_info[lid]
        k = ('sym', 'iter:' + lid, 0, INF)
        ind = info['induction']
        # (no demand on how the loop counts - index, countdown, cursor: entry k is located through the iteration number k)
        nmatch = 0
        for kind, trace, st in info['iter_states'] or []:
            pairs = match_pairs(st, k)
            flag = flag_value(st, lid)
            stops = kind in ('break', 'return')       # leaving by return (scan in a helper, or a direct verdict) is as good as break:
            #                                            what the verdict is, the result table (R11.c) decides
            fterm = flag_term(st, lid)
            got = sorted((p[0], p[1], p[2]) for p in pairs)
            want6 = [(j, 6, 36 + j) for j in range(6)]
            if len(pairs) == 6:
                nmatch += 1
                rep.check(got == want6, 'R11.b', 'scan|entry-bytes',
                          'a match of entry k compares (own-address byte, k coefficient, constant offset) %s; expected byte j with frame[36 + 6k + j] for j = 0..5' % got,
                          node=fn, function='derive_session_event', sample={'match_pairs': got})
                # a matching entry must end the scan as "acknowledging": by break, or by setting the flag the loop tests
                rep.check(stops or flag == 1, 'R11.b', 'scan|match-sets-flag',
                          'entry k equals the own address but the scan neither stops nor records it (flag %s)' % flag, node=fn, function='derive_session_event')
            elif fterm is not None and fterm[0] == 'eq':
                # the flag is assigned the comparison itself: flag <=> (remaining bytes equal) under the equalities already established
                rest = pair_of(st, fterm, k)
                allp = sorted(got + ([rest] if rest else []))
                nmatch += 1
                rep.check(allp == want6, 'R11.b', 'scan|entry-bytes',
                          'the recorded flag is the comparison %s under established pairs %s; together they must be byte j == frame[36 + 6k + j] for j = 0..5' % (short(fterm), got),
                          node=fn, function='derive_session_event', sample={'match_pairs': got, 'flag_is': short(fterm)})
            elif pairs or any_mismatch(st, k):
                # a non-matching entry must not be recorded as a match
                rep.check(not stops and flag != 1, 'R11.b', 'scan|mismatch-keeps-flag',
                          'entry k differs from the own address but the scan %s' % ('stops' if stops else 'records a match'), node=fn, function='derive_session_event')
            else:
                rep.ok('R11.b')
        rep.check(nmatch > 0, 'R11.b', 'scan|never-matches', 'no iteration of the scan compares an entry with the own address', node=fn, function='derive_session_event')
    # the "known session" the changed-transaction verdict rests on is the session of this mapper under the Discover's own
    # generation: every lookup is made with (real source of the frame, generation field of the frame) - no second lookup under
    # another key (a byte-swapped generation, another address) may decide it
    want_gen = mk_cat((('in', 'frame', 33), ('in', 'frame', 32)))
    for st, v in outs:
        for (mac_t, gen_t), _r in st.tags.get('c11.lookups', ()):
            okm = mac_t == ('ptr', 'frame', C(24))
            okg = st.same(gen_t, want_gen)
            rep.check(okm and okg, 'R11.c', 'table|lookup-key', 'the classifier looks a session up under (%s, %s), not under (real source of the frame, generation of the Discover): a session '
                      'of another key then counts as "known"' % (short(mac_t), short(gen_t)), node=fn, function='derive_session_event')
    # (c) result table
    want_all = set()
    for st, v in outs:
        r = st.dom(st.canon(v.t)).const()
        od = st.dom(opc)
        desc = {'opcode': repr(od), 'returns': r}
        if r is None:
            rep.fail('R11.c', 'table|non-constant', 'derive_session_event returns a non-constant value %s' % short(st.canon(v.t)), node=fn, function='derive_session_event')
            continue
        ops = od.values()
        if ops == [OP['reset']]:
            bc = [st.dom(('in', 'frame', 18 + i)) for i in range(6)]
            allff = all(d.const() == 0xFF for d in bc) or st.tags.get('pred:BC') is True
            someno = any(not d.contains(0xFF) for d in bc) or st.tags.get('pred:BC') is False
            if allff:
                rep.check(r == S['topo_reset'], 'R11.c', 'table|reset-broadcast', 'Reset with broadcast real destination yields %d, expected topology reset (%d)' % (r, S['topo_reset']), node=fn,
                          function='derive_session_event', sample=desc)
            elif someno:
                rep.check(r == S['reset'], 'R11.c', 'table|reset-unicast', 'Reset with a non-broadcast real destination yields %d, expected session reset (%d)' % (r, S['reset']), node=fn,
                          function='derive_session_event', sample=desc)
            else:
                rep.fail('R11.c', 'table|reset-unchecked', 'a Reset is classified (%d) without examining all six real-destination bytes' % r, node=fn, function='derive_session_event')
        elif ops == [OP['hello']]:
            rep.check(r == S['hello'], 'R11.c', 'table|hello', 'Hello yields %d, expected %d' % (r, S['hello']), node=fn, function='derive_session_event', sample=desc)
        elif ops == [OP['discover']]:
            lid = lids[0] if lids else None
            k = ('sym', 'iter:' + lid, 0, INF) if lid else None
            cnt = mk_cat((('in', 'frame', 35), ('in', 'frame', 34)))
            fl = flag_value(st, lid) if lid else None
            matched = (k is not None and len(match_pairs(st, k)) == 6) or fl == 1
            empty = st.dom(cnt).hi == 0
            nonempty = st.dom(cnt).lo >= 1
            ex = st.tags.get('c11.existing')
            known = ex is not None and ex != ZERO and ex[0] == 'ptr'
            changed = None
            if known:
                eoff = ex[2]
                seq_entry = st.canon(mem.load_scalar(st, st.objs['in:sessions'], ('add', eoff, C(erec.field('seq_number')[1])), ix.parse_type('unsigned short')))
                xid = mk_cat((('in', 'frame', 31), ('in', 'frame', 30)))
                if st.same(seq_entry, xid):
                    changed = False
                elif st.known_neq(seq_entry, xid):
                    changed = True
            else:
                changed = False
            if matched:
                exp = {False: S['acking'], True: S['acking_chgd'], None: None}[changed]
                rep.check(exp is not None and r == exp, 'R11.c', 'table|discover-acking', 'a Discover listing the own address (known session %s, changed sequence %s) yields %d, expected %s'
                          % (known, changed, r, exp), node=fn, function='derive_session_event', sample=desc)
            elif nonempty and not matched and (fl == 0 or fl is None):
                exp = {False: S['noack'], True: S['noack_chgd'], None: None}[changed]
                rep.check(exp is not None and r == exp, 'R11.c', 'table|discover-noack', 'a Discover whose non-empty list does not contain the own address (known session %s, changed sequence %s) yields %d, expected %s'
                          % (known, changed, r, exp), node=fn, function='derive_session_event', sample=desc)
                # "does not contain it" is only established when every entry was looked at: the scan ended at index >= count
                # (or >= 240, the largest list the property speaks of - a frame-capacity clamp beyond that is acceptable)
                covered = any(st.prove_le(cnt, kk) or st.prove_le(C(240), kk) for kk in [('sym', 'iter:' + l_, 0, INF) for l_ in I.loop_info])
                rep.check(covered, 'R11.e', 'scan|coverage', 'a Discover is classified as not acknowledging after a scan that is not known to have reached the end of the list '
                          '(entries examined: index < %s; count field %s): the own address further down the list is missed'
                          % ([repr(st.dom(('sym', 'iter:' + l_, 0, INF))) for l_ in I.loop_info], st.dom(cnt)), node=fn, function='derive_session_event')
            elif empty:
                rep.check(r in (S['acking'], S['acking_chgd'], S['noack'], S['noack_chgd']), 'R11.c', 'table|discover-empty', 'Discover with an empty list yields %d' % r, node=fn,
                          function='derive_session_event')
            else:
                rep.fail('R11.c', 'table|discover-count-unchecked', 'a Discover is classified (%d) on a path that neither matched the own address nor established whether the list is empty' % r,
                         node=fn, function='derive_session_event')
        elif not (od.contains(OP['reset']) or od.contains(OP['hello']) or od.contains(OP['discover'])):
            rep.check(r == -1, 'R11.c', 'table|other-opcodes', 'opcode %s yields session event %d, expected none (-1)' % (od, r), node=fn, function='derive_session_event', sample=desc)
        else:
            rep.fail('R11.c', 'table|opcode-unchecked', 'a path returns %d without distinguishing the opcode (%s)' % (r, od), node=fn, function='derive_session_event')
    rep.analysed.update({'paths': len(outs), 'loops': lids, 'stride': esz, 'list_offset': base})
    return finish(rep, 'other',
                  'Layout facts from the compiler, the scan decided by an inductive loop summary (entry k = bytes 36+6k..36+6k+5, any k), and the complete result table over all 256 opcodes, '
                  'acking / not, known session / not, changed sequence / not, read off the final abstract states. The bound of the scan by what the frame holds is NOT decided here '
                  '(the function has neither a length nor an interface argument; recorded under C01 as a known finding).',
                  'record-layout facts + abstract interpretation with inductive loop summary; result table vs oracle', exhaustive=True)


def match_pairs(st, k):
    """(own-address byte j, coefficient of k, constant) for frame bytes known equal to own-address bytes."""
    out = []
    for j in range(6):
        a = ('in', 'in:our_mac', j)
        c = st.canon(a)
        cands = [c] + [t for t, r in st.eq.items() if st.canon(r) == c or st.canon(t) == c]
        for t in cands:
            if t[0] == 'in' and t[1] == 'frame' and isinstance(t[2], tuple):
                l = lin_of(t[2])
                co = l.co.get(k)
                if co is not None and len(l.co) == 1:
                    out.append((j, co, l.k))
                    break
    return out


def flag_value(st, lid):
    """Value (0/1/None) of the single accumulated scan flag on this path, from the loop-exit tag or the live local."""
    t = st.tags.get('lv:' + lid)
    vals = []
    if t:
        # the tag holds the flag's term at loop exit; later branches on the flag refine that term
        vals = [repr(st.dom(v)) for _, v in t]
    if len(vals) != 1:
        return None
    return {'[1,1]': 1, '[0,0]': 0}.get(vals[0])


def any_mismatch(st, k):
    """Does the path know that some byte of entry k differs from the own address?"""
    for p in st.neq:
        l = list(p)
        if len(l) == 2 and any(x[0] == 'in' and x[1] == 'in:our_mac' for x in l) and any(x[0] == 'in' and x[1] == 'frame' for x in l):
            return True
    return False


def flag_term(st, lid):
    """Stored term of the single byte-wide scan flag among the function's locals, if any."""
    found = []
    for oid, o in st.objs.items():
        if oid.startswith('L:derive_session_event.') and o.size == C(1) and oid.endswith('acking'):
            c = o.cells.get(((), 0))
            if c is not None:
                found.append(st.canon(c[1]))
    return found[0] if len(found) == 1 else None


def pair_of(st, eqterm, k):
    """(own-address byte j, coefficient of k, constant) described by an eq term, or None."""
    a, b = st.canon(eqterm[1]), st.canon(eqterm[2])
    for x, y in ((a, b), (b, a)):
        if x[0] == 'in' and x[1] == 'in:our_mac' and y[0] == 'in' and y[1] == 'frame' and isinstance(y[2], tuple):
            l = lin_of(y[2])
            if len(l.co) == 1 and k in l.co:
                return (x[2], l.co[k], l.k)
    return None
