"""C19 — memory use is bounded and nothing is leaked.

Typestate of heap objects over all paths of parseFrame (both MTU modes, all
faults): at exit every object allocated while handling the frame is freed or
is part of the retained state (observation list head, icon slot); the retained
state is bounded (growth guard on the list, single icon slot); a topology
Reset releases everything but the per-interface record."""
from ..common import Report, finish
from ..facts import walk
from .. import facts
from . import safety
from .automata_common import load_core
from .frame_common import FrameSetup, run_regions, live_heap, BLOCK_UNIT

CAP_LIMIT = 1 << 16


def run(tier):
    rep = Report('C19', tier)
    rep.rule('R19.a', 'allocation-site inventory of the core (lltd_port_malloc call sites + port-allocated outputs)', floor=12)
    rep.rule('R19.b', 'per-request objects are freed on every path to the handler\'s return (incl. fault paths); no double free / use after free', floor=100)
    rep.rule('R19.c', 'retained state is bounded: observation list growth is guarded by a constant cap; the icon slot is filled only when empty', floor=3)
    rep.rule('R19.e', 'the link field of an observation already in the list is never rewritten (the list is only extended at its head and released from its head)', floor=100)
    rep.rule('R19.d', 'a topology Reset leaves nothing allocated except the per-interface record', floor=1)
    rep.rule('R19.f', 'the record lookup creates a record only when none matches, and never stores into an existing one (a recycled record would drop the list and icon it owns)', floor=3)
    prog = load_core('systemd')
    from .state_record import check_state_for_iface
    check_state_for_iface(rep, prog, 'R19.f')
    sites = []
    for ix in prog.index.values():
        for fname, fn in ix.functions.items():
            n_ = 0
            for n in walk(fn):
                if n.get('kind') == 'CallExpr':
                    c = n['inner'][0]
                    while c.get('kind') in ('ImplicitCastExpr', 'ParenExpr'):
                        c = c['inner'][0]
                    nm = c.get('referencedDecl', {}).get('name')
                    if nm in ('lltd_port_malloc', 'lltd_port_get_icon_image', 'lltd_port_get_friendly_name'):
                        sites.append('%s:%s#%d' % (nm.replace('lltd_port_', ''), fname, n_))
                        n_ += 1
    for s in sites:
        rep.ok('R19.a', sample={'allocation_site': s} if len(rep.samples) < 16 else None)
    res = safety.run_all(kinds=['frame.mtu', 'frame.fallback'])
    seen_sites = set()
    for entry in ('frame.mtu', 'frame.fallback'):
        for o in res[entry]['obs']:
            if o['kind'] in ('bad-free', 'use-after-free', 'loop-leak', 'dangling'):
                if o['ok']:
                    rep.ok('R19.b')
                else:
                    rep.fail('R19.b', '%s|%s|%s' % (entry, o['fn'], o['kind']), o['msg'], file=o['file'], line=o['line'], function=o['fn'])
        linked = 0
        for h in res[entry]['heap']:
            for site, _ in h['malloc_sizes']:
                seen_sites.add(site)
            rep.check(not h['leaked'], 'R19.b', '%s|leak|%s' % (entry, ','.join(sorted(h['leaked']))),
                      'handling a frame (ToS %s, opcode %s) returns with %s allocated but neither freed nor part of the retained state' % (h['tos'], h['op'], h['leaked']),
                      file='lltdResponder/lltdBlock.c', function='parseFrame')
            rep.check(not h.get('link_stores'), 'R19.e', '%s|link-rewritten' % entry,
                      'handling a frame (ToS %s, opcode %s) stores into the link field of an observation that is already in the list (offset/size %s): '
                      'the nodes behind it become unreachable - never reported, never freed, not even by a Reset' % (h['tos'], h['op'], h.get('link_stores')),
                      file='lltdResponder/lltdBlock.c', function='parseFrame')
            if h['new_node_linked']:
                linked += 1
                # growth guard: linking is only possible while the count is below a constant
                import re
                m = re.match(r'^\[(\d+),(\d+)\]', h['count_entry'])
                hi = int(m.group(2)) if m else None
                rep.check(hi is not None and hi < CAP_LIMIT, 'R19.c', 'parseProbe|growth-guard',
                          'a new observation is linked on a path where the list may already hold %s entries: growth is not bounded by a constant cap' % h['count_entry'],
                          file='lltdResponder/lltdBlock.c', function='parseProbe', sample={'count_before_link': h['count_entry']})
            if h['new_icon_kept']:
                rep.check(not h['entry_icon_live'], 'R19.c', 'icon|single-slot', 'a freshly fetched icon is cached while the previously cached one is still allocated',
                          file='lltdResponder/lltdBlock.c', function='parseQueryLargeTlv', sample={'icon_slot': 'filled only when empty'})
        if entry == 'frame.mtu' and not linked:
            rep.fail('R19.c', 'parseProbe|never-links', 'no path links an observation (growth guard cannot be examined)', file='lltdResponder/lltdBlock.c', function='parseProbe')
    # Reset cell
    fs = FrameSetup(prog, mtu_ok=True)
    fs.keep_iter_states = True
    r2, o2, s2 = run_regions(fs, regions=['topo.rest'], jobs=1)
    nreset = 0
    from .frame_common import effects
    from .c07 import cursor_null_at_exit
    from ..terms import ZERO as _Z
    from .. import mem as _mem
    from ..terms import C as _C
    loops = (s2.get('topo.rest') or {}).get('loops') or {}
    for st, ret in r2['topo.rest']:
        if st.dom(('in', 'frame', 17)).const() != 8 or any(e[0] == 'malloc-failed' for e in st.trace):
            continue
        nreset += 1
        live = live_heap(fs, st)
        rep.check(not live, 'R19.d', 'reset|live', 'after a topology Reset %s remain allocated' % live, file='lltdResponder/lltdBlock.c', function='parseFrame',
                  sample={'live_after_reset': live})
        # the observations are one summary node to the heap model: "all of them released" is decided on the release loop - the
        # list head is dropped (NULL) only after the loop was left with its cursor NULL, i.e. because the list ended, not because a
        # counter or guard ran out first (the nodes behind the cursor would be unreachable and stay allocated for ever)
        rel = [l for l in sorted(set(c[-1][1] for e, c in effects(st, 'free') if e[1] == 'SEEN' and c and c[-1][0] == 'loop')) if l in loops]
        if rel:
            head_after = st.canon(_mem.load_scalar(st, st.objs['st'], _C(fs.soff('see_list')), fs.ix.parse_type('void *')))
            def left_at_list_end(l):
                # left by `break` / `return` with a pointer local of the releasing function NULL (`if (head == NULL) break;`)
                for how in ('break', 'return'):
                    v = st.tags.get('left-by-%s:%s' % (how, l))
                    if isinstance(v, tuple) and any(str(x).startswith('L:%s' % l.split('#')[0]) for x in v):
                        return True
                    if v:
                        # ... or with the record's own list head NULL (the loop pops from the front of st->see_list)
                        outs_ = [s_ for kind, _tr, s_ in (loops[l].get('iter_states') or []) if kind == how]
                        if outs_ and all('st' in s_.objs and s_.canon(_mem.load_scalar(s_, s_.objs['st'], _C(fs.soff('see_list')), fs.ix.parse_type('void *'))) == _Z
                                         for s_ in outs_):
                            return True
                return False
            def record_head_null_at_every_exit(l):
                # the loop pops from the front of st->see_list itself (no local cursor): every way out of it - condition, break,
                # return - has the record's own head NULL
                info_ = loops[l]
                outs_ = list(info_.get('exit_snaps') or []) + [s_ for kind, _tr, s_ in (info_.get('iter_states') or []) if kind in ('break', 'return')]
                return bool(outs_) and all('st' in s_.objs and s_.canon(_mem.load_scalar(s_, s_.objs['st'], _C(fs.soff('see_list')), fs.ix.parse_type('void *'))) == _Z
                                           for s_ in outs_)
            okc = head_after != _Z or any(left_at_list_end(l) for l in rel) or cursor_null_at_exit(st, loops, rel) or all(record_head_null_at_every_exit(l) for l in rel)
            rep.check(okc, 'R19.d', 'reset|release-loop-exit', 'the loop that releases the observations on a topology Reset (%s) can be left while its cursor still points into the '
                      'list (a bound or guard ran out first); the list head is cleared all the same: the remaining nodes are unreachable and never freed' % ', '.join(rel),
                      file='lltdResponder/lltdBlock.c', function='parseFrame')
    if not nreset:
        rep.broke('no Reset path found')
    # the growth guard compares the recorded count with a constant: it bounds the list only while count = list length is kept
    # (linking adds exactly one, a report subtracts exactly what it released, nothing else touches list or count)
    rep.rule('R19.g', 'the count the growth guard reads is the length of the list: bookkeeping obligations R07.f / R07.g / R07.j of every cell', floor=40)
    from .c07 import decide as list_decide, RuleView
    list_decide(RuleView(rep, {r: 'R19.g' for r in ('R07.f', 'R07.g', 'R07.j')}), prog)
    # the icon cache is freed through the record: what it points to is a live heap block the record owns (or NULL)
    rep.rule('R19.h', 'the cached icon is NULL or a live heap block owned by the record after every cell (the Reset frees it)', floor=9)
    from .frame_common import icon_invariant
    fs_i = FrameSetup(prog, mtu_ok=True)
    res_i, _oi, _si = run_regions(fs_i)
    icon_invariant(rep, 'R19.h', fs_i, res_i)
    # every record stays reachable from the list head: a record cut off the list is never released and its interface gets a second one
    rep.rule('R19.i', 'handling a frame never rewrites the link or the key of the interface record (every record stays on the list it is released from)', floor=50)
    from .c17 import record_link_rule
    record_link_rule(rep, 'R19.i', fs_i, res_i)
    rep.analysed.update({'allocation_sites': sites, 'sites_reached_from_parseFrame': sorted(seen_sites)})
    return finish(rep, 'proof',
                  'Typestate (allocated / freed / retained) of every heap object along every abstract path of parseFrame over all 65 536 cells, both MTU modes and all fault combinations; '
                  'retained state is limited to the observation list (growth guarded by a constant) and one icon slot; the topology Reset cell ends with only the record allocated. '
                  'The numeric high-water mark in bytes is not computed.',
                  'typestate analysis on the abstract interpreter\'s heap model; growth-guard rule', exhaustive=True)
