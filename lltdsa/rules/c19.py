"""C19 — memory use is bounded and nothing is leaked.

Typestate of heap objects over all paths of parseFrame (both MTU modes, all
faults): at exit every object allocated while handling the frame is freed or
is part of the retained state (observation list head, icon slot); the retained
state is bounded (growth guard on the list, single icon slot); a topology
Reset releases everything but the per-interface record."""
from ..common import Report, finish
from ..facts import walk
from .. import facts
from . import safety
from .automata_common import load_core
from .frame_common import FrameSetup, run_regions, live_heap, BLOCK_UNIT

CAP_LIMIT = 1 << 16


def run(tier):
    rep = Report('C19', tier)
    rep.rule('R19.a', 'allocation-site inventory of the core (lltd_port_malloc call sites + port-allocated outputs)', floor=12)
    rep.rule('R19.b', 'per-request objects are freed on every path to the handler\'s return (incl. fault paths); no double free / use after free', floor=100)
    rep.rule('R19.c', 'retained state is bounded: observation list growth is guarded by a constant cap; the icon slot is filled only when empty', floor=3)
    rep.rule('R19.e', 'the link field of an observation already in the list is never rewritten (the list is only extended at its head and released from its head)', floor=100)
    rep.rule('R19.d', 'a topology Reset leaves nothing allocated except the per-interface record', floor=1)
    rep.rule('R19.f', 'the record lookup creates a record only when none matches, and never stores into an existing one (a recycled record would drop the list and icon it owns)', floor=3)
    prog = load_core('systemd')
    from .state_record import check_state_for_iface
    check_state_for_iface(rep, prog, 'R19.f')
    sites = []
    for ix in prog.index.values():
        for fname, fn in ix.functions.items():
            n_ = 0
            for n in walk(fn):
                if n.get('kind') == 'CallExpr':
                    c = n['inner'][0]
                    while c.get('kind') in ('ImplicitCastExpr', 'ParenExpr'):
                        c = c['inner'][0]
                    nm = c.get('referencedDecl', {}).get('name')
                    if nm in ('lltd_port_malloc', 'lltd_port_get_icon_image', 'lltd_port_get_friendly_name'):
                        sites.append('%s:%s#%d' % (nm.replace('lltd_port_', ''), fname, n_))
                        n_ += 1
    for s in sites:
        rep.ok('R19.a', sample={'allocation_site': s} if len(rep.samples) < 16 else None)
    res = safety.run_all(kinds=['frame.mtu', 'frame.fallback'])
    seen_sites = set()
    for entry in ('frame.mtu', 'frame.fallback'):
        for o in res[entry]['obs']:
            if o['kind'] in ('bad-free', 'use-after-free', 'loop-leak', 'dangling'):
                if o['ok']:
                    rep.ok('R19.b')
                else:
                    rep.fail('R19.b', '%s|%s|%s' % (entry, o['fn'], o['kind']), o['msg'], file=o['file'], line=o['line'], function=o['fn'])
        linked = 0
        for h in res[entry]['heap']:
            for site, _ in h['malloc_sizes']:
                seen_sites.add(site)
            rep.check(not h['leaked'], 'R19.b', '%s|leak|%s' % (entry, ','.join(sorted(h['leaked']))),
                      'handling a frame (ToS %s, opcode %s) returns with %s allocated but neither freed nor part of the retained state' % (h['tos'], h['op'], h['leaked']),
                      file='lltdResponder/lltdBlock.c', function='parseFrame')
            rep.check(not h.get('link_stores'), 'R19.e', '%s|link-rewritten' % entry,
                      'handling a frame (ToS %s, opcode %s) stores into the link field of an observation that is already in the list (offset/size %s): '
                      'the nodes behind it become unreachable - never reported, never freed, not even by a Reset' % (h['tos'], h['op'], h.get('link_stores')),
                      file='lltdResponder/lltdBlock.c', function='parseFrame')
            if h['new_node_linked']:
                linked += 1
                # growth guard: linking is only possible while the count is below a constant
                import re
                m = re.match(r'^\[(\d+),(\d+)\]', h['count_entry'])
                hi = int(m.group(2)) if m else None
                rep.check(hi is not None and hi < CAP_LIMIT, 'R19.c', 'parseProbe|growth-guard',
                          'a new observation is linked on a path where the list may already hold %s entries: growth is not bounded by a constant cap' % h['count_entry'],
                          file='lltdResponder/lltdBlock.c', function='parseProbe', sample={'count_before_link': h['count_entry']})
            if h['new_icon_kept']:
                rep.check(not h['entry_icon_live'], 'R19.c', 'icon|single-slot', 'a freshly fetched icon is cached while the previously cached one is still allocated',
                          file='lltdResponder/lltdBlock.c', function='parseQueryLargeTlv', sample={'icon_slot': 'filled only when empty'})
        if entry == 'frame.mtu' and not linked:
            rep.fail('R19.c', 'parseProbe|never-links', 'no path links an observation (growth guard cannot be examined)', file='lltdResponder/lltdBlock.c', function='parseProbe')
    # Reset cell
    fs = FrameSetup(prog, mtu_ok=True)
    r2, o2, s2 = run_regions(fs, regions=['topo.rest'], jobs=1)
    nreset = 0
    for st, ret in r2['topo.rest']:
        if st.dom(('in', 'frame', 17)).const() != 8 or any(e[0] == 'malloc-failed' for e in st.trace):
            continue
        nreset += 1
        live = live_heap(fs, st)
        rep.check(not live, 'R19.d', 'reset|live', 'after a topology Reset %s remain allocated' % live, file='lltdResponder/lltdBlock.c', function='parseFrame',
                  sample={'live_after_reset': live})
    if not nreset:
        rep.broke('no Reset path found')
    rep.analysed.update({'allocation_sites': sites, 'sites_reached_from_parseFrame': sorted(seen_sites)})
    return finish(rep, 'proof',
                  'Typestate (allocated / freed / retained) of every heap object along every abstract path of parseFrame over all 65 536 cells, both MTU modes and all fault combinations; '
                  'retained state is limited to the observation list (growth guarded by a constant) and one icon slot; the topology Reset cell ends with only the record allocated. '
                  'The numeric high-water mark in bytes is not computed.',
                  'typestate analysis on the abstract interpreter\'s heap model; growth-guard rule', exhaustive=True)
