"""Operators, calls and statements of the abstract interpreter (mixin)."""
from .facts import AnalysisBroken, fn_body, fn_params, where, walk
from .terms import (C, ZERO, ONE, UNINIT, Dom, INF, Lin, lin_of, term_of_lin, is_const, mk_byte, mk_cat,
                    to_bytes, mk_sext, short)
from .state import State, Unsupported
from . import mem
from .absint import Interp, Val, MAX_CONCRETE_ITERS

CMP = {'==': 'eq', '!=': 'ne', '<': 'lt', '<=': 'le', '>': 'gt', '>=': 'ge'}
ARITH = {'+': 'add', '-': 'sub', '*': 'mul', '/': 'div', '%': 'mod', '&': 'and', '|': 'or', '^': 'xor',
         '<<': 'shl', '>>': 'shr'}


class Machine(Interp):

    # ------------------------------------------------------------------ arithmetic
    def arith(self, st, op, a, b, ty, node):
        """a, b: Val already converted; result type ty."""
        x, y = a.t, b.t
        if ty.kind == 'ptr' or a.ty.kind == 'ptr' or b.ty.kind == 'ptr':
            return self.ptr_arith(st, op, a, b, ty, node)
        if x == UNINIT or y == UNINIT:
            raise Unsupported('arithmetic on uninit')
        lo, hi = ty.minmax()
        bits = ty.size * 8
        if op in ('shl', 'shr'):
            dy = st.dom(y)
            ok = dy.lo >= 0 and dy.hi < bits
            self.oblige(ok, 'shift-range', node, 'shift amount %s not proven within [0,%d)' % (dy, bits))
            if not ok:
                return ('sym', st.fresh('badshift'), lo, hi)
            dx = st.dom(x)
            if op == 'shl' and ty.signed:
                okv = dx.lo >= 0 and dx.hi != INF and (int(dx.hi) << int(dy.hi)) <= hi
                self.oblige(okv, 'signed-shift', node,
                            'left shift of signed %s value %s by %s is not representable (undefined behaviour)' % (ty, dx, dy))
                if not okv:
                    return mem.fit_int(st, mk_cat(to_bytes((op, x, y), ty.size)), ty)
            if op == 'shr' and ty.signed:
                self.oblige(dx.lo >= 0, 'signed-shift', node, 'right shift of possibly negative value')
            if is_const(x) and is_const(y):
                r = C(x[1] << y[1]) if op == 'shl' else C(x[1] >> y[1])
            else:
                r = (op, x, y)
                if is_const(y) and y[1] % 8 == 0 and dx.lo >= 0:
                    # keep byte lanes visible
                    n = ty.size
                    src = self.st_bytes(st, x, n)
                    s = y[1] // 8
                    if op == 'shl':
                        r = mk_cat(tuple([ZERO] * s) + tuple(src))
                    else:
                        r = mk_cat(tuple(src[s:]) or (ZERO,))
            return self.finish_int(st, r, ty, node, op)
        if op in ('div', 'mod'):
            dy = st.dom(y)
            ok = not dy.contains(0)
            self.oblige(ok, 'div-zero', node, 'divisor %s may be zero' % (dy,))
            if not ok:
                return ('sym', st.fresh('div0'), lo, hi)
            if is_const(x) and is_const(y):
                q = abs(x[1]) // abs(y[1])
                if (x[1] < 0) != (y[1] < 0):
                    q = -q
                r = C(q) if op == 'div' else C(x[1] - q * y[1])
            else:
                r = (op, x, y)
            return self.finish_int(st, r, ty, node, op)
        if op in ('and', 'or', 'xor'):
            if is_const(x) and is_const(y):
                r = C({'and': x[1] & y[1], 'or': x[1] | y[1], 'xor': x[1] ^ y[1]}[op])
            else:
                dx, dy = st.dom(x), st.dom(y)
                masked = None
                if op == 'and':
                    for p_, q_ in ((x, y), (y, x)):
                        if is_const(q_) and q_[1] > 0 and (q_[1] & (q_[1] + 1)) == 0 and not is_const(p_):
                            dp = st.dom(p_)
                            # x & (2^m - 1) with 0 <= x <= 2^m - 1 (by interval or by the path's linear facts) is x
                            if dp.lo >= 0 and (dp.hi <= q_[1] or ((p_[0] in ('add', 'sub', 'mul') or st.facts) and p_[0] not in ('cat', 'byte') and st.prove_le(p_, q_))):
                                masked = p_
                if masked is not None:
                    r = masked
                elif dx.lo >= 0 and dy.lo >= 0:
                    n = ty.size
                    from .terms import bitop_byte
                    bxs, bys = self.st_bytes(st, x, n), self.st_bytes(st, y, n)
                    r = mk_cat([bitop_byte(op, bx, by, None, k) for k, (bx, by) in enumerate(zip(bxs, bys))])
                else:
                    r = (op, x, y)
            return self.finish_int(st, r, ty, node, op)
        # add sub mul
        if op == 'mul' and not (is_const(x) or is_const(y)):
            r = ('mul', x, y) if repr(x) <= repr(y) else ('mul', y, x)
        else:
            r = self.simp((op, x, y))
        return self.finish_int(st, r, ty, node, op)

    def st_bytes(self, st, x, n):
        """n little-endian byte terms of non-negative x; bytes above x's range are zero."""
        d = st.dom(x)
        out = []
        for k in range(n):
            if d.hi != INF and d.hi < (1 << (8 * k)):
                out.append(ZERO)
            else:
                out.append(mk_byte(x, k))
        return tuple(out)

    def finish_int(self, st, r, ty, node, op):
        lo, hi = ty.minmax()
        d = st.dom(r)
        if (d.lo >= lo or st.prove_le(C(lo), r)) and (d.hi <= hi or st.prove_le(r, C(hi))):
            if d.lo < lo or d.hi > hi:
                st.env[st.canon(r)] = d.meet(Dom(lo, hi))
            if ty.signed:
                self.oblige(True, 'signed-overflow', node, '')
            return r
        if ty.signed:
            self.oblige(False, 'signed-overflow', node,
                        'signed %s arithmetic (%s) may overflow: mathematical range %s exceeds [%d,%d]' % (ty, op, d, lo, hi))
        else:
            hook = getattr(self, 'on_unsigned_wrap', None)
            if hook:
                hook(st, r, ty, node, op, d)
        return mem.fit_int(st, r, ty)

    def ptr_arith(self, st, op, a, b, ty, node):
        if a.ty.kind == 'ptr' and b.ty.kind == 'ptr':
            if op != 'sub':
                raise Unsupported('pointer %s pointer' % op)
            pa, pb = st.canon(a.t), st.canon(b.t)
            if pa[0] == 'ptr' and pb[0] == 'ptr' and pa[1] == pb[1]:
                es = self.sizeof(a.ty.to) or 1
                d = self.simp(('sub', pa[2], pb[2]))
                return d if es == 1 else ('div', d, C(es))
            raise Unsupported('difference of unrelated pointers')
        if b.ty.kind == 'ptr':
            a, b = b, a
        es = self.sizeof(a.ty.to) if a.ty.to.kind != 'void' else 1
        p = st.canon(a.t)
        delta = b.t if es == 1 else ('mul', C(es), b.t)
        if op == 'sub':
            delta = ('neg', delta)
        if p[0] == 'ptr':
            return ('ptr', p[1], self.simp(('add', p[2], delta)))
        if p[0] == 'pset':
            return ('pset', ('adj', p[1], delta), tuple(
                ('ptr', x[1], self.simp(('add', x[2], delta))) if x[0] == 'ptr' else x for x in p[2]))
        if p == ZERO:
            self.oblige(False, 'null-arith', node, 'pointer arithmetic on NULL')
            return ZERO
        return p

    # ------------------------------------------------------------------ operators
    def r_BinaryOperator(self, st, e):
        op = e['opcode']
        L, R = e['inner']
        ty = self.ty(e)
        if op == '=':
            out = []
            for s2, rv in self.rval(st, R):
                for s3, oid, off, lty in self.lval(s2, L):
                    if self.store(s3, oid, off, lty, rv, e):
                        out.append((s3, Val(lty, rv.t)))
            return out
        if op == ',':
            out = []
            for s2, _ in self.rval(st, L):
                out.extend(self.rval(s2, R))
            return out
        if op in ('&&', '||'):
            out = []
            for s2, lv in self.rval(st, L):
                s_t, s_f = self.branch(s2, lv)
                short_c, cont = (s_f, s_t) if op == '&&' else (s_t, s_f)
                if short_c is not None:
                    out.append((short_c, Val(ty, C(0 if op == '&&' else 1))))
                if cont is not None:
                    for s3, rv in self.rval(cont, R):
                        t = rv.t
                        if t[0] not in ('eq', 'ne', 'lt', 'le', 'lnot', 'c'):
                            t = self.cmp(s3, 'ne', t, ZERO)
                        elif t[0] == 'c':
                            t = C(1 if t[1] else 0)
                        out.append((s3, Val(ty, t)))
            return out
        out = []
        for s2, lv in self.rval(st, L):
            for s3, rv in self.rval(s2, R):
                if op in CMP:
                    out.append((s3, Val(ty, self.cmp(s3, CMP[op], lv.t, rv.t))))
                elif op in ARITH:
                    out.append((s3, Val(ty, self.arith(s3, ARITH[op], lv, rv, ty, e))))
                else:
                    raise Unsupported('binary operator %s' % op)
        return out

    def r_CompoundAssignOperator(self, st, e):
        op = e['opcode'][:-1]
        L, R = e['inner']
        cty = self.ix.parse_type(e['computeResultType']['qualType'])
        lcty = self.ix.parse_type(e['computeLHSType']['qualType'])
        out = []
        for s2, rv in self.rval(st, R):
            for s3, oid, off, lty in self.lval(s2, L):
                cur = self.load(s3, oid, off, lty, e)
                if cur is None:
                    continue
                if lty.kind == 'ptr':
                    r = self.arith(s3, ARITH[op], cur, rv, lty, e)
                    nv = Val(lty, r)
                else:
                    lv = Val(lcty, mem.fit_int(s3, cur.t, lcty))
                    r = self.arith(s3, ARITH[op], lv, rv, cty, e)
                    nv = Val(lty, mem.fit_int(s3, r, lty))
                if self.store(s3, oid, off, lty, nv, e):
                    out.append((s3, nv))
        return out

    def r_UnaryOperator(self, st, e):
        op = e['opcode']
        sub = e['inner'][0]
        ty = self.ty(e)
        if op == '&':
            return [(s2, Val(ty, ('ptr', oid, off) if oid is not None else ZERO))
                    for s2, oid, off, _ in self.lval(st, sub)]
        if op == '*':
            out = []
            for s2, oid, off, lty in self.lval(st, e):
                v = self.load(s2, oid, off, lty, e)
                if v is not None:
                    out.append((s2, v))
            return out
        if op in ('++', '--'):
            out = []
            for s2, oid, off, lty in self.lval(st, sub):
                cur = self.load(s2, oid, off, lty, e)
                if cur is None:
                    continue
                one = Val(self.ix.parse_type('int'), ONE)
                if lty.kind == 'ptr':
                    r = self.arith(s2, 'add' if op == '++' else 'sub', cur, one, lty, e)
                else:
                    # performed in the promoted type, then converted back
                    pty = lty if lty.size >= 4 else self.ix.parse_type('int')
                    r = self.arith(s2, 'add' if op == '++' else 'sub', Val(pty, cur.t), one, pty, e)
                    r = mem.fit_int(s2, r, lty)
                nv = Val(lty, r)
                if self.store(s2, oid, off, lty, nv, e):
                    out.append((s2, cur if e.get('isPostfix') else nv))
            return out
        out = []
        for s2, v in self.rval(st, sub):
            if op == '!':
                t = v.t
                if t[0] in ('eq', 'ne', 'lt', 'le', 'lnot'):
                    r = ('lnot', t) if t[0] != 'lnot' else t[1]
                    if t[0] == 'eq':
                        r = ('ne', t[1], t[2])
                    elif t[0] == 'ne':
                        r = ('eq', t[1], t[2])
                else:
                    r = self.cmp(s2, 'eq', t, ZERO)
                out.append((s2, Val(ty, r)))
            elif op == '-':
                r = self.simp(('neg', v.t))
                out.append((s2, Val(ty, self.finish_int(s2, r, ty, e, 'neg'))))
            elif op == '+':
                out.append((s2, Val(ty, v.t)))
            elif op == '~':
                n = ty.size
                bs = []
                for k in range(n):
                    b = mk_byte(v.t, k)
                    bs.append(C(255 - b[1]) if is_const(b) else ('xor', b, C(255)))
                out.append((s2, Val(ty, mem.fit_int(s2, mk_cat(bs), ty))))
            else:
                raise Unsupported('unary %s' % op)
        return out

    def r_ConditionalOperator(self, st, e):
        c, a, b = e['inner']
        out = []
        for s2, cv in self.rval(st, c):
            s_t, s_f = self.branch(s2, cv)
            if s_t is not None:
                out.extend(self.rval(s_t, a))
            if s_f is not None:
                out.extend(self.rval(s_f, b))
        return out

    def r_InitListExpr(self, st, e):
        raise Unsupported('InitListExpr as rvalue')

    def r_ImplicitValueInitExpr(self, st, e):
        ty = self.ty(e)
        if ty.kind in ('int', 'ptr'):
            return [(st, Val(ty, ZERO))]
        return [(st, Val(ty, ('blob', tuple([ZERO] * self.sizeof(ty)))))]

    # ------------------------------------------------------------------ calls
    def r_CallExpr(self, st, e):
        callee = e['inner'][0]
        args = e['inner'][1:]
        c = callee
        while c['kind'] in ('ImplicitCastExpr', 'ParenExpr'):
            c = c['inner'][0]
        states = [(st, [])]
        fnname = None
        indirect = None
        if c['kind'] == 'DeclRefExpr' and c['referencedDecl']['kind'] == 'FunctionDecl':
            fnname = c['referencedDecl']['name']
        else:
            indirect = c
        for a in args:
            nxt = []
            for s2, vs in states:
                for s3, v in self.rval(s2, a):
                    nxt.append((s3, vs + [v]))
            states = nxt
        out = []
        rty = self.ty(e)
        for s2, vs in states:
            if indirect is not None:
                for s3, fv in self.rval(s2, callee):
                    out.extend(self.call_indirect(s3, fv, vs, e, rty, indirect))
            else:
                out.extend(self.call(s2, fnname, vs, e, rty))
        return out

    def call_indirect(self, st, fv, args, node, rty, cexpr):
        t = st.canon(fv.t)
        if t[0] == 'fn' and t[1] not in ('send_hello',) and (t[1] in self.summaries or self.prog.resolve(self.ix, t[1])[1] is not None
                                                              or (self.port is not None and self.port.handles(t[1]))):
            # a call through a pointer whose target is known (a const table of handlers / writers): the direct call
            return self.call(st, t[1], args, node, rty)
        name = cexpr.get('name') if cexpr['kind'] == 'MemberExpr' else '?'
        st.effect(('indirect', name, tuple(st.canon(a.t) for a in args)))
        return [(st, Val(rty, ZERO if rty.kind == 'void' else ('sym', st.fresh('indirect'), *self.range_of(rty))))]

    def range_of(self, ty):
        if ty.kind == 'int':
            return ty.minmax()
        return (0, INF)

    BUILTIN_MEM = {'memcpy': 'memcpy', 'memset': 'memset', 'memmove': 'memmove', 'memcmp': 'memcmp'}

    def call(self, st, name, args, node, rty):
        if name in self.summaries:
            return self.summaries[name](self, st, args, node, rty)
        base = name[len('__builtin_'):] if name.startswith('__builtin_') else name
        if name.startswith('__builtin_'):
            if base in ('expect', 'expect_with_probability', 'assume_aligned') and args:
                return [(st, Val(rty, args[0].t))]
            if base in ('unreachable', 'trap'):
                return []
            if base == 'constant_p':
                return [(st, Val(rty, ZERO))]
            if base in ('bswap16', 'bswap32', 'bswap64') and args:
                n = {'bswap16': 2, 'bswap32': 4, 'bswap64': 8}[base]
                bs = to_bytes(args[0].t, n)
                return [(st, Val(rty, st.canon(mk_cat(tuple(reversed(bs))))))]
        if base in self.BUILTIN_MEM and self.port is not None and self.port.handles('lltd_port_' + base) and (self.prog.resolve(self.ix, name)[1] is None):
            return self.port.call(self, st, 'lltd_port_' + base, args, node, rty)
        if self.port is not None and self.port.handles(name):
            return self.port.call(self, st, name, args, node, rty)
        ix, fn = self.prog.resolve(self.ix, name)
        if fn is None:
            if name.startswith('lltd_port_') and rty.kind == 'void' and self._read_only_call(node):
                # a port function this model does not know, taking only values and pointers to const: it cannot change
                # anything the core can observe (a new logging / tracing hook of the port API)
                st.effect(('port-call', name))
                return [(st, Val(rty, ZERO))]
            raise Unsupported('call to %s: no definition and no model (%s)' % (name, where(node)))
        return self.inline(st, ix, fn, args, node, rty)

    def _read_only_call(self, node):
        """Does the callee's prototype take only non-pointer values and pointers to const?"""
        try:
            c = node['inner'][0]
            while c.get('kind') in ('ImplicitCastExpr', 'ParenExpr'):
                c = c['inner'][0]
            qt = c['referencedDecl']['type']['qualType']
            params = qt[qt.index('(') + 1:qt.rindex(')')]
            for p_ in params.split(','):
                p_ = p_.strip()
                if p_ in ('', 'void', '...'):
                    continue
                if '*' in p_ and not p_.replace('struct ', '').lstrip().startswith('const '):
                    return False
            return True
        except Exception:
            return False

    def call_sig(self, st, name, args):
        sig = [name]
        for a in args:
            t = st.canon(a.t)
            d = st.dom(t) if t[0] not in ('ptr', 'pset', 'fn', 'blob') else None
            if t[0] == 'ptr':
                sig.append(('ptr', t[1]))
                o = st.objs.get(t[1])
                if o is not None:
                    cs = []
                    for k, (w, ct) in sorted(o.cells.items(), key=repr):
                        ct = st.canon(ct)
                        if is_const(ct):
                            cs.append((k, ct))
                        elif w <= 2 and ct[0] not in ('ptr', 'pset', 'fn'):
                            dd = st.dom(ct)
                            if dd.size() <= 4:
                                cs.append((k, dd))
                    sig.append(tuple(cs))
            elif d is not None and (d.const() is not None):
                sig.append(d.const())
            else:
                sig.append(None)
        return tuple(sig)

    def inline(self, st, ix, fn, args, node, rty):
        name = fn['name']
        if name not in self.recursive_fns:
            sig = (name,)
        else:
            sig = self.call_sig(st, name, args)
        if name in self.recursive_fns and sig not in st.stack and sum(1 for s_ in st.stack if s_[0] == name) >= 3:
            # widening: a word-sized cell of an argument object that takes a new constant at every level (a statistics counter
            # bumped before the function calls itself) would keep the levels apart for ever; from the fourth level on such
            # cells are forgotten (any value of their width), which lets the signature - and with it the cut below - converge
            prev = [s_ for s_ in st.stack if s_[0] == name][-1]
            if len(prev) == len(sig):
                widened = False
                for i_ in range(1, len(sig) - 1):
                    a_, b_ = sig[i_], prev[i_]
                    if isinstance(a_, tuple) and len(a_) == 2 and a_[0] == 'ptr' and a_ == b_ and isinstance(sig[i_ + 1], tuple) and isinstance(prev[i_ + 1], tuple):
                        cur_c, old_c = dict(sig[i_ + 1]), dict(prev[i_ + 1])
                        o_ = st.objs.get(a_[1])
                        for k_ in cur_c:
                            if k_ in old_c and old_c[k_] != cur_c[k_] and o_ is not None and k_ in o_.cells and o_.cells[k_][0] >= 4:
                                w_ = o_.cells[k_][0]
                                o_.cells[k_] = (w_, ('sym', st.fresh('widened:%s' % name), 0, (1 << (8 * w_)) - 1))
                                widened = True
                if widened:
                    sig = self.call_sig(st, name, args)
        if name in self.recursive_fns and sig in st.stack:
            # recursive re-entry with the same abstract arguments: least fix-point of a
            # tail call = the non-recursive exits; this path contributes nothing new
            st.tags['recursion_cut'] = st.tags.get('recursion_cut', 0) + 1
            if rty.kind == 'void' and fn_ret_kind(ix, fn) == 'void':
                # a void function walking a summary structure (a list released node by node by tail recursion): the deeper
                # levels repeat on the same abstract state what this level has just done - the state reached here stands
                # for "one or more levels done", next to the base-case exits
                return [(st, Val(rty, ZERO))]
            return []
        if sum(1 for s in st.stack if s[0] == name) >= 6:
            raise Unsupported('recursion too deep in ' + name)
        self.functions_seen.add(name)
        params = fn_params(fn)
        body = fn_body(fn)
        if name in self.recursive_fns:
            tb = self.tail_loop(fn)
            if tb is not None:
                body = tb
        save_ix, save_fn = self.ix, self.fn
        self.ix, self.fn = ix, name
        depth = sum(1 for s in st.stack if s[0] == name)
        frame = {}
        pre = 'L:%s%s.' % (name, '@%d' % depth if depth else '')
        for p, a in zip(params, args):
            pty = ix.parse_type(p['type']['qualType'])
            oid = pre + (p.get('name') or 'arg')
            st.new_obj(oid, 'param', ix.sizeof(pty) if pty.kind != 'void' else 1)
            frame[p['id']] = oid
            if pty.kind in ('int', 'ptr'):
                mem.store_scalar(st, st.objs[oid], ZERO, pty.size, a.t)
            elif a.t[0] == 'blob':
                mem.store_bytes(st, st.objs[oid], ZERO, list(a.t[1]))
        frame['#pre'] = pre
        st.frames.append(frame)
        old_stack = st.stack
        st.stack = st.stack + (sig,)
        try:
            outs = self.exec_stmt(st, body)
        finally:
            self.ix, self.fn = save_ix, save_fn
        res = []
        for s2, ctl in outs:
            fr = s2.frames.pop()
            for did, oid in fr.items():
                if did != '#pre':
                    s2.objs.pop(oid, None)
            s2.stack = old_stack
            v = None
            if ctl is not None and ctl[0] == 'goto':
                raise Unsupported('goto in %s whose label is not a later statement of an enclosing block (backward or into a block)' % name)
            if ctl is not None and ctl[0] == 'return':
                v = ctl[1]
            if v is None:
                if rty.kind != 'void' and fn_ret_kind(ix, fn) != 'void':
                    self.oblige(False, 'missing-return', node, 'control reaches end of non-void function ' + name)
                v = Val(rty, ZERO)
            res.append((s2, ('return', v)))
        res = self.merge(res)
        if len(res) > 1 and (fn.get('type') or {}).get('qualType', '').startswith('char ('):
            res = self._join_char_returns(res, rty)
        return [(s, c[1]) for s, c in res]

    def tail_loop(self, fn):
        """A function whose only calls of itself are tail calls (`f(st, n - 1);` as the last thing done, or
        `return f(...)`) is the loop `for (;;) { body with each tail call replaced by {params = args; continue;} return; }`.
        -> the synthetic body, or None when some self-call is not a tail call (the recursion cut applies then)."""
        cache = self.__dict__.setdefault('_tail_loops', {})
        key = fn.get('id')
        if key in cache:
            return cache[key]
        cache[key] = None
        body = fn_body(fn)
        params = fn_params(fn)
        name = fn['name']
        if body is None or body.get('kind') != 'CompoundStmt':
            return None

        def strip(e):
            while e.get('kind') in ('ImplicitCastExpr', 'ParenExpr', 'CStyleCastExpr') and e.get('inner'):
                e = e['inner'][0]
            return e

        def is_self_call(e):
            e = strip(e)
            if e.get('kind') != 'CallExpr' or not e.get('inner'):
                return None
            c = strip(e['inner'][0])
            if c.get('kind') == 'DeclRefExpr' and (c.get('referencedDecl') or {}).get('name') == name:
                return e
            return None

        def count_calls(n):
            return sum(1 for x in walk(n) if is_self_call(x) is not None and x.get('kind') == 'CallExpr')
        total = count_calls(body)
        if total == 0:
            return None
        replaced = [0]

        def refers_to(e, pid):
            return any(x.get('kind') == 'DeclRefExpr' and (x.get('referencedDecl') or {}).get('id') == pid for x in walk(e))

        def replacement(call):
            args = call['inner'][1:]
            if len(args) != len(params):
                return None
            stmts = []
            changed = []
            for p, a in zip(params, args):
                sa = strip(a)
                if sa.get('kind') == 'DeclRefExpr' and (sa.get('referencedDecl') or {}).get('id') == p['id']:
                    continue              # passed through unchanged
                if any(refers_to(a, q) for q in changed):
                    return None           # would need simultaneous assignment
                changed.append(p['id'])
                ref = {'kind': 'DeclRefExpr', 'type': p['type'], 'valueCategory': 'lvalue', 'range': call.get('range'),
                       'referencedDecl': {'id': p['id'], 'kind': 'ParmVarDecl', 'name': p.get('name'), 'type': p['type']}}
                stmts.append({'kind': 'BinaryOperator', 'opcode': '=', 'type': p['type'], 'valueCategory': 'prvalue',
                              'range': call.get('range'), 'inner': [ref, a]})
            stmts.append({'kind': 'ContinueStmt', 'range': call.get('range')})
            return {'kind': 'CompoundStmt', 'range': call.get('range'), 'inner': stmts}

        def tail(stmt):
            """-> rewritten statement (stmt is in tail position)"""
            k = stmt.get('kind')
            if k == 'CompoundStmt':
                inner = list(stmt.get('inner') or [])
                idx = len(inner) - 1
                if idx >= 1 and inner[idx].get('kind') == 'ReturnStmt' and not inner[idx].get('inner'):
                    idx -= 1              # `f(...); return;`
                if idx < 0:
                    return stmt
                new = tail(inner[idx])
                if new is inner[idx]:
                    return stmt
                out = dict(stmt)
                out['inner'] = inner[:idx] + [new] + inner[idx + 1:]
                return out
            if k == 'IfStmt':
                inner = list(stmt.get('inner') or [])
                out = dict(stmt)
                out['inner'] = [inner[0]] + [tail(b) for b in inner[1:]]
                return out if any(a is not b for a, b in zip(out['inner'], inner)) else stmt
            if k == 'ReturnStmt' and stmt.get('inner'):
                c = is_self_call(stmt['inner'][0])
                if c is not None:
                    r = replacement(c)
                    if r is not None:
                        replaced[0] += 1
                        return r
                return stmt
            c = is_self_call(stmt) if k in ('CallExpr', 'ImplicitCastExpr', 'ParenExpr', 'CStyleCastExpr') else None
            if c is not None:
                r = replacement(c)
                if r is not None:
                    replaced[0] += 1
                    return r
            return stmt
        nb = tail(body)
        if replaced[0] != total or count_calls(nb) != 0:
            return None
        loop_body = dict(nb)
        loop_body['inner'] = list(nb['inner']) + [{'kind': 'ReturnStmt', 'range': body.get('range')}]
        loop = {'kind': 'ForStmt', 'range': body.get('range'), 'inner': [{}, {}, {}, {}, loop_body]}
        cache[key] = {'kind': 'CompoundStmt', 'range': body.get('range'), 'inner': [loop]}
        return cache[key]

    def _join_char_returns(self, res, rty):
        """A helper returning a plain `char` (a digit / character formatter) whose outcomes differ only in the character
        returned: one outcome with "some character in the range" instead of one state per character class.  (Never for
        bool / uint8_t results: callers branch on those and the states carry what was learnt.)"""
        groups = []
        for st, ctl in res:
            v = ctl[1]
            if v is None or v.t[0] in ('ptr', 'pset', 'fn'):
                groups.append([st, ctl, None])
                continue
            d = st.dom(v.t)
            for g in groups:
                if g[2] is not None and g[0].raw_equal(st) and g[0].trace == st.trace and g[0].tags == st.tags:
                    g[2] = g[2].join(d)
                    g[0].join_knowledge(st)
                    break
            else:
                groups.append([st, ctl, d])
        out = []
        for st, ctl, d in groups:
            if d is not None and d.const() is None:
                t = ('sym', st.fresh('char'), d.lo, d.hi)
                ctl = ('return', Val(rty, t))
            out.append((st, ctl))
        return out

    # ------------------------------------------------------------------ statements
    def exec_stmt(self, st, s):
        """-> [(state, control)]; control None | ('break',) | ('continue',) | ('return', Val|None)"""
        self.tick()
        k = s['kind']
        m = getattr(self, 's_' + k, None)
        if m is not None:
            return m(st, s)
        if k.endswith(('Expr', 'Operator', 'Literal')):
            return [(s2, None) for s2, _ in self.rval(st, s)]
        raise Unsupported('statement kind %s at %s' % (k, where(s)))

    def s_NullStmt(self, st, s):
        return [(st, None)]

    def s_CompoundStmt(self, st, s):
        cur = [(st, None)]
        done = []
        declared = []
        kids = s.get('inner', [])
        for pos, c in enumerate(kids):
            if c.get('kind') == 'DeclStmt':
                for d in c.get('inner', []):
                    if d.get('kind') == 'VarDecl' and d.get('storageClass') != 'static':
                        declared.append(d['id'])
            if c.get('kind') == 'LabelStmt':
                # forward jumps (`goto out;` clean-up idiom): paths that left this block towards this label resume here
                lid = c.get('declId')
                back = [(s2, ctl) for s2, ctl in done if ctl is not None and ctl[0] == 'goto' and ctl[1] == lid]
                if back:
                    done = [(s2, ctl) for s2, ctl in done if not (ctl is not None and ctl[0] == 'goto' and ctl[1] == lid)]
                    cur = cur + [(s2, None) for s2, _ in back]
                    if len(cur) > 1:
                        cur = self.merge(cur)
            if not cur:
                # nothing flows into this statement; a later label may still be the target of a pending jump
                pending = set(ctl[1] for _s, ctl in done if ctl is not None and ctl[0] == 'goto')
                if not any(k.get('kind') == 'LabelStmt' and k.get('declId') in pending for k in kids[pos:]):
                    break
                continue
            nxt = []
            before = len(cur)
            for s2, ctl in cur:
                nxt.extend(self.exec_stmt(s2, c))
            cur = []
            for s2, ctl in nxt:
                (done if ctl is not None else cur).append((s2, ctl))
            # states that did not fork in this statement were already compared with each other;
            # anything that became equal meanwhile is merged at the end of the enclosing statement
            if len(cur) > 1 and len(nxt) != before:
                cur = self.merge(cur)
        outs = cur + done
        if declared:
            for s2, ctl in outs:
                fr = s2.frames[-1]
                for did in declared:
                    oid = fr.pop(did, None)
                    if oid is not None:
                        # keep objects whose address is the returned value alive? (not in this code base)
                        s2.objs.pop(oid, None)
        return self.merge(outs)

    def s_DeclStmt(self, st, s):
        states = [st]
        for d in s.get('inner', []):
            if d.get('kind') != 'VarDecl':
                continue       # typedefs, records
            nxt = []
            for s2 in states:
                nxt.extend(self.declare(s2, d))
            states = nxt
        return [(s2, None) for s2 in states]

    def declare(self, st, d):
        if d.get('storageClass') == 'static':
            self.global_obj(st, d)
            return [st]
        ty = self.ix.parse_type(d['type']['qualType'])
        pre = st.frames[-1].get('#pre', 'L:?.')
        oid = pre + d['name']
        if oid in st.objs:
            oid = oid + '~' + str(d.get('_line'))
        st.new_obj(oid, 'local', self.sizeof(ty))
        st.frames[-1][d['id']] = oid
        init = [c for c in d.get('inner', []) if 'kind' in c and not c['kind'].endswith(('Attr', 'Comment'))]
        if init:
            return self.init_obj(st, oid, ZERO, ty, init[0])
        return [st]

    def s_ReturnStmt(self, st, s):
        inner = s.get('inner', [])
        if getattr(self, 'recording_iteration', 0):
            # (which `return` left a summarised loop stays visible: see the left-by-return tag)
            st.tags = dict(st.tags)
            st.tags['ret-site'] = where(s)
        if not inner:
            return [(st, ('return', None))]
        return [(s2, ('return', v)) for s2, v in self.rval(st, inner[0])]

    def s_BreakStmt(self, st, s):
        return [(st, ('break',))]

    def s_GotoStmt(self, st, s):
        return [(st, ('goto', s.get('targetLabelDeclId')))]

    def s_LabelStmt(self, st, s):
        inner = [c for c in s.get('inner', []) if isinstance(c, dict) and 'kind' in c]
        return self.exec_stmt(st, inner[-1]) if inner else [(st, None)]

    def s_AttributedStmt(self, st, s):
        inner = [c for c in s.get('inner', []) if isinstance(c, dict) and c.get('kind') and not c['kind'].endswith('Attr')]
        return self.exec_stmt(st, inner[-1]) if inner else [(st, None)]

    def s_ContinueStmt(self, st, s):
        return [(st, ('continue',))]

    def s_IfStmt(self, st, s):
        inner = s['inner']
        cond, then = inner[0], inner[1]
        els = inner[2] if len(inner) > 2 else None
        out = []
        for s2, cv in self.rval(st, cond):
            s_t, s_f = self.branch(s2, cv)
            if s_t is not None:
                out.extend(self.exec_stmt(s_t, then))
            if s_f is not None:
                if els is not None:
                    out.extend(self.exec_stmt(s_f, els))
                else:
                    out.append((s_f, None))
        return self.merge(out)

    def s_SwitchStmt(self, st, s):
        cond = s['inner'][0]
        body = s['inner'][-1]
        if body['kind'] != 'CompoundStmt':
            raise Unsupported('switch body is not a compound statement')
        # flatten: list of (labels, stmt)
        seq = []
        for c in body.get('inner', []):
            labels = []
            while c['kind'] in ('CaseStmt', 'DefaultStmt'):
                if c['kind'] == 'CaseStmt':
                    ce = c['inner'][0]
                    if 'value' in ce:
                        labels.append(int(ce['value']))
                    else:
                        labels.append(self.const_int(st, ce))
                    c = c['inner'][-1]
                else:
                    labels.append('default')
                    c = c['inner'][-1]
            seq.append((labels, c))
        all_cases = [l for ls, _ in seq for l in ls if l != 'default']
        out = []
        for s2, cv in self.rval(st, cond):
            entries = []     # (state, start index)
            rest = s2
            for idx, (labels, _) in enumerate(seq):
                for l in labels:
                    if l == 'default':
                        continue
                    if rest is None:
                        break
                    t = self.cmp(rest, 'eq', cv.t, C(l))
                    if is_const(t):
                        if t[1]:
                            entries.append((rest, idx))
                            rest = None
                        continue
                    hit = rest.fork()
                    if self.assume(hit, t, True):
                        hit.path = hit.path + (('switch==%s' % l, True),)
                        entries.append((hit, idx))
                    if not self.assume(rest, t, False):
                        rest = None
            if rest is not None:
                didx = [i for i, (ls, _) in enumerate(seq) if 'default' in ls]
                if didx:
                    entries.append((rest, didx[0]))
                else:
                    out.append((rest, None))
            for s3, idx in entries:
                cur = [(s3, None)]
                for _, stmt in seq[idx:]:
                    nxt = []
                    for s4, ctl in cur:
                        if ctl is not None:
                            nxt.append((s4, ctl))
                        else:
                            nxt.extend(self.exec_stmt(s4, stmt))
                    cur = nxt
                    if all(ctl is not None for _, ctl in cur):
                        break
                for s4, ctl in cur:
                    if ctl == ('break',):
                        ctl = None
                    out.append((s4, ctl))
        return self.merge(out)

    def const_int(self, st, e):
        r = self.rval(st, e)
        if len(r) == 1 and is_const(r[0][1].t):
            return r[0][1].t[1]
        raise Unsupported('non-constant case label')

    # loops are in absint_loops.py


def fn_ret_kind(ix, fn):
    t = ix.parse_type(fn['type']['qualType'])
    return t.ret.kind if t.kind == 'func' and t.ret is not None else 'void'
