"""facts: compile database, clang AST loading, record layouts, type resolution.

Everything here is recomputed from /repo's working tree on every run.
Nothing is executed except the compiler front end (clang -fsyntax-only).
"""
import json
import os
import re
import shlex
import subprocess
import sys
from concurrent.futures import ThreadPoolExecutor

REPO = os.environ.get('LLTD_REPO', '/repo')
CLANG = os.environ.get('LLTD_CLANG', 'clang')
# thorough tier: re-parse the (OS-header-free) core for a 32-bit target: ILP32 layouts, 4-byte size_t and pointers
ILP32 = bool(os.environ.get('LLTD_ILP32'))
WORD = 4 if ILP32 else 8

CORE_UNITS = ['lltdResponder/lltdBlock.c', 'lltdResponder/lltdAutomata.c',
              'lltdResponder/lltdTlvOps.c', 'lltdResponder/lltdWire.c']


class Defect(Exception):
    """A violation found while the analysis was being set up (e.g. a constructor that leaves a table field uninitialised):
    reported as a violation of the running check, not as a broken analysis."""

    def __init__(self, key, msg, function=None, file=None):
        Exception.__init__(self, msg)
        self.key, self.msg, self.function, self.file = key, msg, function, file


class AnalysisBroken(Exception):
    """Raised when the machinery cannot analyse what it must (exit 2)."""


# --------------------------------------------------------------------------
# compile database
# --------------------------------------------------------------------------

def _make_n(args):
    try:
        out = subprocess.run(['make', '-n', '-B', '-C', REPO] + args, capture_output=True,
                             text=True, timeout=60).stdout
    except Exception as e:  # pragma: no cover
        raise AnalysisBroken('make -n failed: %s' % e)
    # join continuation lines
    out = out.replace('\\\n', ' ')
    cmds = []
    for line in out.splitlines():
        line = line.strip()
        if re.match(r'^(cc|gcc|clang)\s', line):
            cmds.append(line)
    return cmds


def _parse_cc(line):
    line = re.sub(r'\$\$?\([^)]*\)', ' ', line)  # $(pkg-config ...)
    toks = shlex.split(line)
    flags, srcs = [], []
    i = 1
    while i < len(toks):
        t = toks[i]
        if t in ('-D', '-I', '-U', '-include'):
            if i + 1 < len(toks):
                flags.append(t + toks[i + 1] if t != '-include' else t)
                if t == '-include':
                    flags.append(toks[i + 1])
            i += 2
            continue
        if t.startswith(('-D', '-I', '-U')):
            flags.append(t)
        elif t == '-o':
            i += 2
            continue
        elif t.endswith('.c'):
            srcs.append(t)
        i += 1
    return flags, srcs


class Unit(object):
    def __init__(self, path, config, flags):
        self.path = path            # relative to REPO
        self.config = config
        self.flags = flags
        self.ast = None
        self.error = None
        self._index = None

    @property
    def abspath(self):
        return os.path.join(REPO, self.path)

    def clang_args(self, extra=()):
        inc = []
        for f in self.flags:
            if f.startswith('-I') and not os.path.isabs(f[2:]):
                inc.append('-I' + os.path.join(REPO, f[2:]))
            else:
                inc.append(f)
        m32 = ['-m32', '-ffreestanding'] if ILP32 and (self.path.startswith('lltdResponder/') or self.path.startswith('os/esp32/')) else []
        return [CLANG, '-std=gnu11', '-fsyntax-only', '-w'] + m32 + list(extra) + inc + [self.abspath]

    def __repr__(self):
        return 'Unit(%s,%s)' % (self.path, self.config)


def compile_db():
    """Units per configuration, from the Makefile's own commands."""
    units = []
    seen = set()

    def add(path, config, flags):
        key = (path, config)
        if key in seen:
            return
        seen.add(key)
        units.append(Unit(path, config, list(flags)))

    for config, args in (('systemd', ['PLATFORM=linux-systemd', 'all']),
                         ('embedded', ['PLATFORM=linux-embedded', 'all'])):
        cmds = _make_n(args)
        if not cmds:
            raise AnalysisBroken('no compile command from make -n for ' + config)
        for c in cmds:
            flags, srcs = _parse_cc(c)
            for s in srcs:
                add(s, config, flags)
    for c in _make_n(['test-unit', 'test-integration']):
        flags, srcs = _parse_cc(c)
        for s in srcs:
            add(s, 'testing', flags)
    # core units missing from the testing commands are still parsed in that config
    tflags = ['-Itests', '-IlltdResponder', '-DLLTD_TESTING']
    for s in CORE_UNITS:
        add(s, 'testing', tflags)
    # parseable units the Makefile does not build
    extra = [('os/esp32/daemon/lltd_esp32.c', ['-IlltdResponder', '-Ios/esp32/daemon']),
             ('os/posix/lltd_port.c', ['-IlltdResponder']),
             ('tools/automata/main_autom.c', ['-IlltdResponder']),
             ('tests/test_lltd_generation.c', ['-Itests', '-IlltdResponder', '-DLLTD_TESTING']),
             ('tests/integration/lltd_integration_smoke.c', ['-Itests', '-IlltdResponder', '-DLLTD_TESTING'])]
    for s, fl in extra:
        if os.path.exists(os.path.join(REPO, s)):
            add(s, 'extra', fl)
    for s in CORE_UNITS:
        if not os.path.exists(os.path.join(REPO, s)):
            raise AnalysisBroken('core unit missing: ' + s)
    # core sources the build has gained since (a helper file split off one of the four): part of the core for every rule
    more = sorted(set(u.path for u in units if u.config == 'systemd' and u.path.startswith('lltdResponder/') and u.path.endswith('.c')) - set(CORE_UNITS))
    for s in more:
        CORE_UNITS.append(s)
        add(s, 'testing', tflags)
    return units


# --------------------------------------------------------------------------
# AST loading with location resolution
# --------------------------------------------------------------------------

def _resolve_locs(root):
    """clang omits file/line when unchanged from the previously printed
    location; replay its printing order and annotate each node with
    _file/_line/_col (expansion location)."""
    state = {'file': None, 'line': None}

    def upd(loc):
        # loc is a bare location dict (may be empty)
        if 'file' in loc:
            state['file'] = loc['file']
        if 'line' in loc:
            state['line'] = loc['line']
        return (state['file'], state['line'], loc.get('col'))

    def do_loc(loc):
        if not isinstance(loc, dict):
            return None
        if 'spellingLoc' in loc or 'expansionLoc' in loc:
            sp = ex = None
            # printed in this order by clang's JSONNodeDumper
            if 'spellingLoc' in loc:
                sp = upd(loc['spellingLoc'])
            if 'expansionLoc' in loc:
                ex = upd(loc['expansionLoc'])
            return (ex or sp, sp)
        if not loc:
            return None
        r = upd(loc)
        return (r, None)

    stack = [root]
    # iterative pre-order walk in document order
    while stack:
        n = stack.pop()
        if not isinstance(n, dict):
            continue
        here = None
        if 'loc' in n:
            here = do_loc(n['loc'])
        if 'range' in n:
            b = do_loc(n['range'].get('begin'))
            do_loc(n['range'].get('end'))
            if here is None:
                here = b
        if here is not None and here[0] is not None:
            n['_file'], n['_line'], n['_col'] = here[0]
            if here[1] is not None:
                n['_spell'] = here[1]
        inner = n.get('inner')
        if inner:
            stack.extend(reversed(inner))
    return root


def _run(cmd, timeout=120):
    p = subprocess.run(cmd, capture_output=True, text=True, timeout=timeout)
    return p.returncode, p.stdout, p.stderr


def load_unit(unit):
    rc, out, err = _run(unit.clang_args(['-Xclang', '-ast-dump=json']))
    if rc != 0 or not out:
        rc2, _, err2 = _run([a for a in unit.clang_args() if a != '-w'])
        unit.error = (err2 or err or 'clang failed').strip().splitlines()[:3]
        return unit
    try:
        unit.ast = _resolve_locs(json.loads(out))
    except Exception as e:
        unit.error = ['json: %s' % e]
        return unit
    rc, lay, err = _run(unit.clang_args(['-Xclang', '-fdump-record-layouts-complete']))
    unit.layout_text = lay
    return unit


def offsetof_table(unit):
    """id of every OffsetOfExpr node of the unit -> (type text, member designator).  clang's JSON dump prints neither, and the
    expression may sit inside nested macros, so they are taken from the preprocessed text: the k-th `__builtin_offsetof(`
    that the preprocessor emits for a source line belongs to the k-th OffsetOfExpr the AST has at that (expansion) line."""
    tab = getattr(unit, '_offsetof', None)
    if tab is not None:
        return tab
    tab = unit._offsetof = {}
    args = ['-E' if a == '-fsyntax-only' else a for a in unit.clang_args()]
    rc, text, err = _run(args)
    if rc != 0 or not text:
        return tab
    # position -> (file, line)
    starts, where_ = [], []
    pos, cur_file, cur_line = 0, unit.abspath, 1
    for raw in text.split('\n'):
        m = re.match(r'#\s*(\d+)\s+"([^"]*)"', raw)
        if m:
            cur_line, cur_file = int(m.group(1)), m.group(2)
        else:
            starts.append(pos)
            where_.append((os.path.realpath(cur_file) if not cur_file.startswith('<') else cur_file, cur_line))
            cur_line += 1
        pos += len(raw) + 1
    import bisect
    occ = {}
    for m in re.finditer(r'__builtin_offsetof\s*\(', text):
        i = m.end()
        depth, j = 1, i
        while j < len(text) and depth:
            c = text[j]
            depth += c in '([{'
            depth -= c in ')]}'
            j += 1
        inner = ' '.join(text[i:j - 1].split())
        # split at the first top-level comma
        d, cut = 0, None
        for k, c in enumerate(inner):
            d += c in '([{'
            d -= c in ')]}'
            if c == ',' and d == 0:
                cut = k
                break
        if cut is None:
            continue
        li = bisect.bisect_right(starts, m.start()) - 1
        if li < 0:
            continue
        occ.setdefault(where_[li], []).append((inner[:cut].strip(), inner[cut + 1:].strip()))
    nodes = {}
    for n in walk(unit.ast):
        if n.get('kind') == 'OffsetOfExpr' and n.get('_file'):
            nodes.setdefault((os.path.realpath(n['_file']), n.get('_line')), []).append(n['id'])
    for key, ids in nodes.items():
        o = occ.get(key, [])
        if len(o) == len(ids):
            for nid, td in zip(ids, o):
                tab[nid] = td
    return tab


def load_units(units, jobs=16):
    with ThreadPoolExecutor(max_workers=jobs) as ex:
        list(ex.map(load_unit, units))
    return units


# --------------------------------------------------------------------------
# types
# --------------------------------------------------------------------------

class CType(object):
    __slots__ = ('kind', 'size', 'signed', 'to', 'n', 'rec', 'name', 'ret')

    def __init__(self, kind, size=0, signed=False, to=None, n=None, rec=None, name=None, ret=None):
        self.kind = kind      # int ptr rec arr void func float
        self.size = size
        self.signed = signed
        self.to = to
        self.n = n
        self.rec = rec
        self.name = name
        self.ret = ret

    def is_int(self):
        return self.kind == 'int'

    def is_ptr(self):
        return self.kind == 'ptr'

    def is_bool(self):
        return self.kind == 'int' and self.name == '_Bool'

    def minmax(self):
        assert self.kind == 'int', self
        if self.name == '_Bool':
            return (0, 1)
        bits = self.size * 8
        if self.signed:
            return (-(1 << (bits - 1)), (1 << (bits - 1)) - 1)
        return (0, (1 << bits) - 1)

    def __repr__(self):
        if self.kind == 'int':
            return self.name or ('%sint%d' % ('' if self.signed else 'u', self.size * 8))
        if self.kind == 'ptr':
            return '%r*' % (self.to,)
        if self.kind == 'arr':
            return '%r[%s]' % (self.to, self.n)
        if self.kind == 'rec':
            return 'rec:%s' % self.rec.name
        return self.kind

    def key(self):
        if self.kind == 'int':
            return ('int', self.size, self.signed, self.name == '_Bool')
        if self.kind in ('ptr', 'arr'):
            return (self.kind, self.to.key() if self.to else None, self.n)
        if self.kind == 'rec':
            return ('rec', self.rec.key)
        return (self.kind,)


ROLE_TABLES = {
    'lltd_iface_state': [('iface_ctx', 'void *'), ('next', 'struct lltd_iface_state *'), ('see_list', 'probe_t *'), ('see_list_count', 'uint32_t'),
                         ('mapper_real', 'ethernet_address_t'), ('mapper_apparent', 'ethernet_address_t'), ('mapper_known', 'uint8_t'),
                         ('mapper_seq', 'uint16_t'), ('mapper_gen_topology', 'uint16_t'), ('mapper_gen_quick', 'uint16_t'),
                         ('small_icon', 'void *'), ('small_icon_size', 'size_t')],
    'mapping_state': [('ctc', 'uint8_t'), ('charge_timeout_ts', 'uint64_t'), ('inactive_timeout_ts', 'uint64_t')],
    'band_state': [('Ni', 'uint32_t'), ('r', 'uint32_t'), ('begun', 'bool'), ('hello_timeout_ts', 'uint64_t'), ('block_timeout_ts', 'uint64_t')],
    'session_entry': [('mapper_mac', 'uint8_t[6]'), ('generation', 'uint16_t'), ('seq_number', 'uint16_t'), ('state', 'uint8_t'),
                      ('complete', 'bool'), ('valid', 'bool'), ('last_activity_ts', 'uint64_t'), ('created_ts', 'uint64_t')],
    'session_table': [('entries', 'session_entry[16]'), ('count', 'uint8_t'), ('all_complete', 'bool')],
}
_TYPE_ALIASES = {'_Bool': 'bool', 'unsigned char': 'uint8_t', 'unsigned short': 'uint16_t', 'unsigned int': 'uint32_t', 'unsigned long': 'size_t',
                 'unsigned long long': 'uint64_t'}


def _norm_type(qt):
    qt = ' '.join(qt.replace('const ', '').replace('struct ', '').split())
    return _TYPE_ALIASES.get(qt, qt)


class Record(object):
    def __init__(self, key, name):
        self.key = key
        self.name = name
        self.size = None
        self.align = None
        self.fields = []          # (name, offset, qualType, declid)
        self.field_by_name = {}
        self.packed = False
        self.complete = False
        self.file = None
        self.line = None

    def field(self, name):
        f = self.field_by_name.get(name)
        if f is None:
            f = self._by_role(name)
        return f

    def _by_role(self, name):
        """A field of one of the core's internal records that was merely renamed: re-identified by its C type and its
        position among the fields of that type (ROLE_TABLES lists the records as the rules know them).  None if the
        record is not listed or the identification is ambiguous."""
        table = ROLE_TABLES.get(self.name.replace('struct ', ''))
        if not table:
            return None
        roles = dict(table)
        if name not in roles:
            return None
        ty = _norm_type(roles[name])
        known = set(n for n, _t in table)
        missing = [n for n, t in table if _norm_type(t) == ty and n not in self.field_by_name]
        unnamed = [x for x in self.fields if _norm_type(x[2]) == ty and x[0] not in known]
        if len(missing) != len(unnamed) or name not in missing:
            return None
        return unnamed[missing.index(name)]

    def __repr__(self):
        return 'Record(%s,%s)' % (self.name, self.size)


class DataModel(object):
    def __init__(self, name=None):
        name = name or ('ILP32' if ILP32 else 'LP64')
        self.name = name
        self.long = 8 if name == 'LP64' else 4
        self.ptr = 8 if name == 'LP64' else 4


_BUILTIN = {
    '_Bool': (1, False), 'bool': (1, False),
    'char': (1, True), 'signed char': (1, True), 'unsigned char': (1, False),
    'short': (2, True), 'unsigned short': (2, False),
    'int': (4, True), 'unsigned int': (4, False), 'unsigned': (4, False),
    'long long': (8, True), 'unsigned long long': (8, False),
}


class UnitIndex(object):
    """Declarations, records, typedefs and functions of one translation unit."""

    def __init__(self, unit, model=None):
        self.unit = unit
        self.model = model or DataModel()
        self.decl = {}            # id -> node
        self.functions = {}       # name -> FunctionDecl with body
        self.fdecls = {}          # name -> any FunctionDecl (prototype)
        self.globals = {}         # name -> VarDecl node (file scope)
        self.typedefs = {}        # name -> qualType string
        self.typedef_rec = {}     # typedef name -> RecordDecl id (typedef of a record)
        self.records = {}         # key -> Record ; key = ('n',name) or ('l',file,line,col)
        self.field_parent = {}    # FieldDecl id -> (Record, field name)
        self.enum_consts = {}     # id -> int
        self._tcache = {}
        self.parent_fn = {}
        self._walk_decls(unit.ast, None, True)
        self._parse_layouts(getattr(unit, 'layout_text', '') or '')
        self._flatten_role_records()

    # ---- declarations
    def _walk_decls(self, n, fn, toplevel):
        stack = [(n, fn, toplevel)]
        while stack:
            n, fn, toplevel = stack.pop()
            if not isinstance(n, dict):
                continue
            k = n.get('kind')
            if k and k.endswith('Decl') and 'id' in n:
                self.decl[n['id']] = n
            if k == 'FunctionDecl':
                name = n.get('name')
                self.fdecls.setdefault(name, n)
                if any(c.get('kind') == 'CompoundStmt' for c in n.get('inner', [])):
                    self.functions[name] = n
                fn = n
            elif k == 'VarDecl':
                if toplevel:
                    # prefer the defining declaration
                    old = self.globals.get(n.get('name'))
                    if old is None or n.get('storageClass') != 'extern':
                        self.globals[n.get('name')] = n
                n['_fn'] = fn.get('name') if fn else None
            elif k == 'TypedefDecl':
                self.typedefs[n.get('name')] = n['type'].get('qualType')
                t0 = (n.get('inner') or [{}])[0]
                if t0.get('kind') == 'ElaboratedType' and t0.get('inner'):
                    t0 = t0['inner'][0]
                if t0.get('kind') == 'RecordType' and 'decl' in t0:
                    self.typedef_rec[n.get('name')] = t0['decl']['id']
            elif k == 'RecordDecl':
                if n.get('completeDefinition'):
                    self._add_record(n)
            elif k == 'EnumConstantDecl':
                self.enum_consts[n['id']] = n
            inner = n.get('inner')
            if inner:
                tl = toplevel and k in ('TranslationUnitDecl',)
                for c in reversed(inner):
                    stack.append((c, fn, tl))

    def _add_record(self, n):
        if n.get('name'):
            key = ('n', n.get('tagUsed', 'struct') + ' ' + n['name'])
        else:
            key = ('l', n.get('_file'), n.get('_line'), n.get('_col'))
        r = Record(key, n.get('name') or ('unnamed@%s:%s' % (os.path.basename(str(n.get('_file'))), n.get('_line'))))
        r.file, r.line = n.get('_file'), n.get('_line')
        r.complete = True
        for c in n.get('inner', []):
            if c.get('kind') == 'FieldDecl':
                r.fields.append([c.get('name'), None, c['type'].get('qualType'), c['id']])
                self.field_parent[c['id']] = (r, c.get('name'))
            elif c.get('kind') == 'MaxFieldAlignmentAttr':
                r.packed = True
        self.records[key] = r
        self.records[('id', n['id'])] = r

    _hdr = re.compile(r'^\s*0 \| (struct|union) (.*)$')
    _fld = re.compile(r'^\s*(\d+)(?::[\d-]+)? \|   (\S.*)$')
    _end = re.compile(r'\[sizeof=(\d+), align=(\d+)')

    def _parse_layouts(self, text):
        cur = None
        want_hdr = False
        for line in text.splitlines():
            if line.startswith('*** Dumping AST Record Layout'):
                want_hdr = True
                cur = None
                continue
            if want_hdr:
                m = self._hdr.match(line)
                want_hdr = False
                if not m:
                    continue
                tag, nm = m.group(1), m.group(2).strip()
                # (also `outer::(unnamed at file:line:col)` for a struct defined inside another one)
                mm = re.search(r'\((?:unnamed|anonymous)(?: struct| union)? at (.*):(\d+):(\d+)\)$', nm)
                if mm:
                    key = ('l', mm.group(1), int(mm.group(2)), int(mm.group(3)))
                else:
                    key = ('n', tag + ' ' + nm)
                cur = self.records.get(key)
                if cur is not None:
                    cur._lay = []
                continue
            if cur is None:
                continue
            m = self._end.search(line)
            if m:
                cur.size, cur.align = int(m.group(1)), int(m.group(2))
                names = [f[0] for f in cur.fields]
                lay = cur._lay
                if [x[1] for x in lay] != names:
                    cur.size = None   # unusable
                else:
                    for f, (off, _) in zip(cur.fields, lay):
                        f[1] = off
                    cur.field_by_name = {f[0]: f for f in cur.fields}
                cur = None
                continue
            m = self._fld.match(line)
            if m and not line.split('|', 1)[1].startswith('    '):
                cur._lay.append((int(m.group(1)), m.group(2).split()[-1]))

    # ---- type parsing
    def _flatten_role_records(self):
        """The internal records the rules know (ROLE_TABLES): a group of their fields moved into a nested struct
        (`st->icon_cache.data`) stays addressable - the members of struct-typed fields are added as `parent.member` at their
        absolute offsets, next to the parent field, so that the role lookup (by type and position) finds them."""
        for r in list(self.records.values()):
            nm = (r.name or '').replace('struct ', '')
            if nm not in ROLE_TABLES or getattr(r, '_flattened', False) or r.size is None:
                continue
            r._flattened = True
            extra = []
            for f in list(r.fields):
                try:
                    t = self.parse_type(f[2])
                except Exception:
                    continue
                if t.kind != 'rec' or t.rec is None or t.rec is r or t.rec.size is None or f[1] is None:
                    continue
                if (t.rec.name or '').replace('struct ', '') in ('ethernet_address_t',):
                    continue
                for g in t.rec.fields:
                    if g[1] is None:
                        continue
                    extra.append(['%s.%s' % (f[0], g[0]), f[1] + g[1], g[2], g[3]])
            for e in extra:
                if e[0] not in r.field_by_name:
                    r.fields.append(e)
                    r.field_by_name[e[0]] = e

    def parse_type(self, qt):
        t = self._tcache.get(qt)
        if t is None:
            t = self._parse_type(qt)
            self._tcache[qt] = t
        return t

    UNNAMED_REC = re.compile(r'^(?:(?:const|volatile)\s+)*(struct|union) \((?:unnamed|anonymous)(?: struct| union)? at (.*):(\d+):(\d+)\)(?:\s+(?:const|volatile))*$')

    def _parse_type(self, qt):
        s = qt.strip()
        m = self.UNNAMED_REC.match(s)
        if m:
            r = self.records.get(('l', m.group(2), int(m.group(3)), int(m.group(4))))
            if r is None:
                raise AnalysisBroken('unknown record type %r' % s)
            return CType('rec', size=r.size or 0, rec=r)
        # function / function pointer
        if s.endswith(')') and '(' in s:
            # find the top-level '(' that starts the parameter list
            depth = 0
            for i in range(len(s) - 1, -1, -1):
                if s[i] == ')':
                    depth += 1
                elif s[i] == '(':
                    depth -= 1
                    if depth == 0:
                        break
            head = s[:i].rstrip()
            if head.endswith(')'):
                # ret (*)(args) or ret (*const)(args)
                j = head.rfind('(')
                ret = self.parse_type(head[:j])
                inner = head[j + 1:-1].strip()
                ft = CType('func', ret=ret)
                t = ft
                for ch in inner.replace('const', '').replace(' ', ''):
                    if ch == '*':
                        t = CType('ptr', size=self.model.ptr, to=t)
                return t
            return CType('func', ret=self.parse_type(head))
        # arrays (outermost dimension first)
        m = re.match(r'^(.*?)\s*\[(\d*)\]((?:\[\d*\])*)$', s)
        if m:
            base, n, rest = m.group(1), m.group(2), m.group(3)
            elem = self.parse_type(base + (' ' + rest if rest else ''))
            n = int(n) if n else None
            return CType('arr', size=(elem.size * n if n is not None else 0), to=elem, n=n)
        # pointers
        s2 = re.sub(r'\b(const|volatile|restrict|__restrict)\s*$', '', s).rstrip()
        if s2.endswith('*'):
            return CType('ptr', size=self.model.ptr, to=self.parse_type(s2[:-1]))
        s = s2
        s = re.sub(r'^\s*((const|volatile)\s+)+', '', s)
        s = re.sub(r'\s+(const|volatile)\b', '', s).strip()
        if s == 'void':
            return CType('void')
        if s in _BUILTIN:
            sz, sg = _BUILTIN[s]
            return CType('int', size=sz, signed=sg, name='_Bool' if s in ('_Bool', 'bool') else s)
        if s in ('long', 'long int'):
            return CType('int', size=self.model.long, signed=True, name='long')
        if s in ('unsigned long', 'unsigned long int'):
            return CType('int', size=self.model.long, signed=False, name='unsigned long')
        if s in ('float',):
            return CType('float', size=4)
        if s in ('double',):
            return CType('float', size=8)
        if s == 'long double':
            return CType('float', size=16)
        m = re.match(r'^(struct|union) \((?:unnamed|anonymous)(?: struct| union)? at (.*):(\d+):(\d+)\)$', s)
        if m:
            r = self.records.get(('l', m.group(2), int(m.group(3)), int(m.group(4))))
            if r is None:
                raise AnalysisBroken('unknown record type %r' % s)
            return CType('rec', size=r.size or 0, rec=r)
        if s in self.typedef_rec or (s.startswith(('struct ', 'union ')) and s.split(' ', 1)[1] in self.typedef_rec
                                     and ('n', s) not in self.records):
            nm = s if s in self.typedef_rec else s.split(' ', 1)[1]
            r = self.records.get(('id', self.typedef_rec[nm]))
            if r is not None:
                if r.name.startswith('unnamed@'):
                    r.name = nm
                return CType('rec', size=r.size or 0, rec=r)
        if s.startswith(('struct ', 'union ')):
            r = self.records.get(('n', s))
            if r is None:
                r = Record(('n', s), s)   # incomplete
                self.records[('n', s)] = r
            return CType('rec', size=r.size or 0, rec=r)
        if s.startswith('enum '):
            return CType('int', size=4, signed=False, name='unsigned int')
        if s in self.typedefs:
            return self.parse_type(self.typedefs[s])
        raise AnalysisBroken('cannot parse type %r in %s' % (qt, self.unit.path))

    def file_scope_vars(self):
        """Names of mutable variables defined at file scope in this unit's own source files (not system headers)."""
        r = getattr(self, '_fsv', None)
        if r is None:
            r = set()
            for n in walk(self.unit.ast):
                if n.get('kind') == 'VarDecl' and n.get('_fn') is None and n.get('storageClass') != 'extern' and str(n.get('_file') or '').startswith(REPO + '/'):
                    qt = n['type']['qualType']
                    if 'const' not in qt.split('[')[0].split('*')[-1].split():
                        r.add(n.get('name'))
            self._fsv = r
        return r

    def type_of(self, node):
        t = node.get('type')
        if not t:
            raise AnalysisBroken('node without type: %s' % node.get('kind'))
        return self.parse_type(t.get('desugaredQualType') or t['qualType']) \
            if False else self.parse_type(t['qualType'])

    def sizeof(self, ct):
        if ct.kind == 'rec':
            if ct.rec.size is None:
                raise AnalysisBroken('no layout for record %s' % ct.rec.name)
            return ct.rec.size
        if ct.kind == 'arr':
            if ct.n is None:
                raise AnalysisBroken('sizeof incomplete array')
            return self.sizeof(ct.to) * ct.n
        if ct.kind in ('int', 'ptr', 'float'):
            return ct.size
        if ct.kind == 'void':
            return 1
        raise AnalysisBroken('sizeof %r' % (ct,))

    def field_info(self, member_decl_id):
        """(Record, name, offset, CType) for a FieldDecl id."""
        rp = self.field_parent.get(member_decl_id)
        if rp is None:
            raise AnalysisBroken('unknown field decl ' + member_decl_id)
        rec, name = rp
        f = rec.field_by_name.get(name)
        if f is None or f[1] is None:
            raise AnalysisBroken('no layout for field %s.%s' % (rec.name, name))
        return rec, name, f[1], self.parse_type(f[2])


def fn_body(fn):
    for c in fn.get('inner', []):
        if c.get('kind') == 'CompoundStmt':
            return c
    return None


def fn_params(fn):
    return [c for c in fn.get('inner', []) if c.get('kind') == 'ParmVarDecl']


def where(node):
    f = node.get('_file')
    if f and f.startswith(REPO + '/'):
        f = f[len(REPO) + 1:]
    return '%s:%s' % (f, node.get('_line'))


class _Functions(dict):
    """name -> definition for one unit; a non-static function that lives in another core unit of the same program is found
    too (a function moved to a new source file is still the same anchor).  Iteration lists this unit's own functions only."""
    prog = None

    def _other(self, name):
        p = self.prog
        ix2 = p.fn_unit.get(name) if p is not None else None
        if ix2 is not None and dict.__contains__(ix2.functions, name):
            return dict.__getitem__(ix2.functions, name)
        return None

    def __missing__(self, name):
        fn = self._other(name)
        if fn is None:
            raise KeyError(name)
        return fn

    def get(self, name, default=None):
        if dict.__contains__(self, name):
            return dict.__getitem__(self, name)
        fn = self._other(name)
        return default if fn is None else fn

    def __contains__(self, name):
        return dict.__contains__(self, name) or self._other(name) is not None


class Program(object):
    """All units of one configuration, with cross-unit function resolution."""

    def __init__(self, units, model=None):
        self.units = [u for u in units if u.ast is not None]
        self.failed = [u for u in units if u.ast is None]
        self.index = {}
        for u in self.units:
            self.index[u.path] = UnitIndex(u, model)
        self.fn_unit = {}
        for u in self.units:
            ix = self.index[u.path]
            for name, fn in ix.functions.items():
                if fn_body(fn) is not None and fn.get('_file'):
                    from . import common
                    f = fn['_file']
                    common.FUNCTION_LOCATIONS.setdefault(name, (f[len(REPO) + 1:] if f.startswith(REPO + '/') else f, fn.get('_line')))
                if fn.get('storageClass') == 'static':
                    continue
                self.fn_unit.setdefault(name, ix)
        for ix in self.index.values():
            if not isinstance(ix.functions, _Functions):
                f = _Functions(ix.functions)
                ix.functions = f
            ix.functions.prog = self

    def resolve(self, ix, name):
        """Definition of function `name` as seen from unit index ix."""
        if dict.__contains__(ix.functions, name):
            return ix, dict.__getitem__(ix.functions, name)
        ix2 = self.fn_unit.get(name)
        if ix2 is not None and dict.__contains__(ix2.functions, name):
            return ix2, dict.__getitem__(ix2.functions, name)
        return None, None

    def unit(self, path):
        ix = self.index.get(path)
        if ix is None:
            raise AnalysisBroken('unit not parsed: ' + path)
        return ix


def load_config(config, extra_paths=(), jobs=16, all_units=None):
    units = all_units if all_units is not None else compile_db()
    sel = [u for u in units if u.config == config or u.path in extra_paths]
    load_units(sel, jobs)
    return Program(sel)


def walk(n):
    """Pre-order generator over AST dict nodes."""
    stack = [n]
    while stack:
        n = stack.pop()
        if isinstance(n, dict):
            yield n
            inner = n.get('inner')
            if inner:
                stack.extend(reversed(inner))
