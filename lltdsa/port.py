"""Abstract model of the platform port API (lltdPort.h) - the port contract.

Every assumption made here is listed in common.PORT_CONTRACT and printed in
the evidence files.
"""
from .terms import (maybe_uninit, C, ZERO, ONE, UNINIT, Dom, INF, Lin, lin_of, term_of_lin, is_const, mk_byte, mk_cat, to_bytes, short)
from .state import Unsupported
from . import mem
from .absint import Val

I32 = (-(1 << 31), (1 << 31) - 1)
from .facts import WORD as _W
SIZE_MAX = (1 << (8 * _W)) - 1


def rc_atom(name):
    return ('sym', 'rc.' + name, I32[0], I32[1])


CLOCK_LO = {'s': 0, 'ms': 1}


class PortModel(object):
    def __init__(self, mtu_ok=True, alloc_may_fail=True, word=None, clock_name='clock'):
        from .facts import WORD
        word = word or WORD
        self.clock_name = clock_name      # constructors read the clock under another name: their readings are not this step's
        self.mtu_ok = mtu_ok
        self.alloc_may_fail = alloc_may_fail
        self.word = word
        self.site_count = {}

    MTU = ('sym', 'port.mtu', 576, 9216)

    def handles(self, name):
        return name.startswith('lltd_port_') and hasattr(self, 'p_' + name[len('lltd_port_'):])

    def call(self, I, st, name, args, node, rty):
        return getattr(self, 'p_' + name[len('lltd_port_'):])(I, st, args, node, rty)

    # ---- helpers
    def ret_int(self, st, rty, t):
        return [(st, Val(rty, t))]

    def out_targets(self, I, st, ptrval, n, node, what):
        """Resolve an out-pointer argument: [(state, oid, off)] with bounds obligations for n bytes."""
        res = []
        for s2, oid, off in I.targets(st, ptrval.t):
            if oid is None:
                I.oblige(False, 'null-deref', node, 'NULL passed as %s' % what)
                continue
            if I.check_access(s2, oid, off, n, node, what):
                res.append((s2, oid, off))
        return res

    def site(self, I, node, kind):
        """Stable allocation-site name: function + ordinal of this call among the function's calls of that kind."""
        key = (I.fn, kind)
        m = self.site_count.setdefault(key, {})
        nid = id(node)
        if nid not in m:
            m[nid] = len(m)
        return '%s:%s#%d' % (kind, I.fn, m[nid])

    # ---- time (the seconds clock may read 0 - a monotonic clock counting from start-up; the millisecond clock is kept >= 1:
    # 0 is the "never" sentinel of last_hello_tx_ms and of the RepeatBand deadlines, see DESIGN.md section 6)
    def _clock(self, I, st, unit, rty):
        n = st.tags.get('clk.' + unit, 0)
        st.tags['clk.' + unit] = n + 1
        t = ('sym', '%s.%s.%d' % (self.clock_name, unit, n), CLOCK_LO[unit], (1 << 63))
        if n > 0:
            prev = ('sym', '%s.%s.%d' % (self.clock_name, unit, n - 1), CLOCK_LO[unit], (1 << 63))
            st.add_fact(lin_of(prev).add(lin_of(t), -1))       # prev <= t
        floor = st.tags.get('clkfloor.' + unit)
        if floor is not None and n == 0:
            for f in floor:
                st.add_fact(lin_of(f).add(lin_of(t), -1))
        return [(st, Val(rty, t))]

    def p_monotonic_seconds(self, I, st, args, node, rty):
        return self._clock(I, st, 's', rty)

    def p_monotonic_milliseconds(self, I, st, args, node, rty):
        return self._clock(I, st, 'ms', rty)

    # ---- memory
    def p_malloc(self, I, st, args, node, rty):
        size = args[0].t
        site = self.site(I, node, 'heap')
        out = []
        if self.alloc_may_fail:
            s_null = st.fork()
            s_null.effect(('malloc-failed', site))
            s_null.path = s_null.path + (('malloc %s' % site, False),)
            out.append((s_null, Val(rty, ZERO)))
        old = st.objs.get(site)
        if old is not None and old.live:
            n = 1
            while '%s~%d' % (site, n) in st.objs:
                n += 1
            old.id = '%s~%d' % (site, n)
            st.objs[old.id] = old
            del st.objs[site]
            # retarget pointers to the renamed object is not needed: cells keep the old id only
            # in states where the object leaked or is retained through a summary
            st.tags['renamed:' + site] = old.id
        o = st.new_obj(site, 'heap', size, default='uninit', heap=True, site=site)
        st.effect(('malloc', site, st.canon(size)))
        out.append((st, Val(rty, ('ptr', site, ZERO))))
        return out

    def p_free(self, I, st, args, node, rty):
        out = []
        for s2, oid, off in I.targets(st, args[0].t):
            if oid is None:
                out.append((s2, Val(rty, ZERO)))
                continue
            o = s2.objs.get(oid) if oid != '?' else None
            if o is None:
                I.oblige(False, 'bad-free', node, 'free of pointer with unknown provenance')
                out.append((s2, Val(rty, ZERO)))
                continue
            if o.weak:
                s2.effect(('free', oid))
                out.append((s2, Val(rty, ZERO)))
                continue
            ok = o.heap and o.live and s2.canon(off) == ZERO
            why = 'double free of %s' % oid if (o.heap and not o.live) else 'free of non-heap or interior pointer %s+%s' % (oid, short(off))
            I.oblige(ok, 'bad-free', node, why)
            if o.heap and o.live:
                o.live = False
                o.cells.clear()
                o.ptr_fields = None
            s2.effect(('free', oid))
            out.append((s2, Val(rty, ZERO)))
        return out

    def p_memset(self, I, st, args, node, rty):
        dst, val, n = args
        out = []
        nt = st.canon(n.t)
        for s2, oid, off in I.targets(st, dst.t):
            if oid is None:
                I.oblige(False, 'null-deref', node, 'memset on NULL')
                continue
            if not I.check_access(s2, oid, off, nt, node, 'memset'):
                continue
            o = s2.objs[oid]
            v = s2.canon(val.t)
            b = mk_byte(v, 0)
            dn = s2.dom(nt)
            whole = s2.canon(off) == ZERO and s2.prove_le(o.size, nt) and not o.weak
            if dn.const() is not None and dn.const() <= 4096 and not (whole and dn.const() > 64):
                cnt = int(dn.const())
                I.raw_store(s2, oid, off, cnt, [b] * cnt)
            elif whole:
                o.cells.clear()
                if isinstance(o.ptr_fields, dict):
                    o.ptr_fields = None
                o.default = 'zero' if b == ZERO else 'unknown'
                o.zeroed_n = o.size
                I.note_store(s2, oid, off, 0, None, None)
            elif s2.canon(off) == ZERO and not o.weak:
                # prefix of symbolic length
                o.cells.clear()
                o.default = 'zero' if b == ZERO else 'unknown'
                o.zeroed_n = nt
            else:
                raise Unsupported('memset with symbolic length at non-zero offset')
            s2.effect(('memset', oid, s2.canon(off), b, nt))
            out.append((s2, Val(rty, dst.t)))
        return out

    def p_memcpy(self, I, st, args, node, rty):
        dst, src, n = args
        out = []
        nt = st.canon(n.t)
        for s2, doid, doff in I.targets(st, dst.t):
            for s3, soid, soff in I.targets(s2, src.t):
                if doid is None or soid is None:
                    I.oblige(False, 'null-deref', node, 'memcpy with NULL argument')
                    continue
                ok1 = I.check_access(s3, doid, doff, nt, node, 'memcpy destination')
                ok2 = I.check_access(s3, soid, soff, nt, node, 'memcpy source')
                if not (ok1 and ok2):
                    continue
                do, so = s3.objs[doid], s3.objs[soid]
                if do.ro or do.kind == 'input':
                    I.oblige(False, 'write-ro', node, 'memcpy into read-only / received object ' + doid)
                dn = s3.dom(nt)
                if dn.const() is not None and dn.const() <= 4096:
                    cnt = int(dn.const())
                    bs = mem.load_bytes(s3, so, soff, cnt)
                    cbs = [s3.canon(b) for b in bs]
                    if any(maybe_uninit(b) for b in cbs):
                        I.oblige(False, 'uninit-copy', node, 'memcpy copies %d possibly uninitialised byte(s) from %s (e.g. a buffer a failing getter left untouched)'
                                 % (sum(1 for b in cbs if maybe_uninit(b)), soid))
                    else:
                        I.oblige(True, 'uninit-copy', node, '')
                    I.raw_store(s3, doid, doff, cnt, bs)
                else:
                    key = mem.off_key(s3, doff)
                    if not do.weak:
                        mem.add_region(do, key, nt, ('memcpy', soid, s3.canon(soff)))
                    I.note_store(s3, doid, doff, 0, None, None)
                s3.effect(('memcpy', doid, s3.canon(doff), soid, s3.canon(soff), nt))
                out.append((s3, Val(rty, dst.t)))
        return out

    def p_memcmp(self, I, st, args, node, rty):
        """libc semantics: 0 iff the n bytes are pairwise equal.  Modelled as two outcomes - equal (all byte pairs
        unified, returns 0) and different (returns a non-zero value, no further knowledge)."""
        a, b, n = args
        out = []
        nt = st.canon(n.t)
        for s2, aoid, aoff in I.targets(st, a.t):
            for s3, boid, boff in I.targets(s2, b.t):
                if aoid is None or boid is None:
                    I.oblige(False, 'null-deref', node, 'memcmp with NULL argument')
                    continue
                if not (I.check_access(s3, aoid, aoff, nt, node, 'memcmp') and I.check_access(s3, boid, boff, nt, node, 'memcmp')):
                    continue
                dn = s3.dom(nt)
                if dn.const() is None or dn.const() > 256:
                    out.append((s3, Val(rty, ('sym', s3.fresh('memcmp'), I32[0], I32[1]))))
                    continue
                cnt = int(dn.const())
                xs = mem.load_bytes(s3, s3.objs[aoid], aoff, cnt)
                ys = mem.load_bytes(s3, s3.objs[boid], boff, cnt)
                eqs = s3.fork()
                ok = True
                for x, y in zip(xs, ys):
                    if x == UNINIT or y == UNINIT:
                        I.oblige(False, 'uninit-read', node, 'memcmp reads uninitialised bytes')
                        ok = False
                        break
                    if not eqs.union(x, y):
                        ok = False
                        break
                if ok:
                    eqs.path = eqs.path + (('memcmp(%d bytes) == 0' % cnt, True),)
                    out.append((eqs, Val(rty, ZERO)))
                definitely_equal = all(s3.canon(x) == s3.canon(y) for x, y in zip(xs, ys))
                if not definitely_equal:
                    r = ('sym', s3.fresh('memcmp'), I32[0], I32[1])
                    s3.env[r] = s3.dom(r).without(0)
                    # "the two ranges differ" is a disjunction the domain cannot hold byte-wise; where the compared pairs are
                    # exactly those of a tracked equality predicate, its status (False) is kept as a tag
                    got = set(frozenset((s3.canon(x), s3.canon(y))) for x, y in zip(xs, ys))
                    for pname, pairs in (getattr(I, 'tracked_preds', None) or {}).items():
                        if got == set(frozenset((s3.canon(a_), s3.canon(b_))) for a_, b_ in pairs):
                            s3.tags = dict(s3.tags)
                            s3.tags['pred:' + pname] = False
                    out.append((s3, Val(rty, r)))
        return out

    # ---- effects
    def p_sleep_ms(self, I, st, args, node, rty):
        st.effect(('sleep', st.canon(args[0].t)))
        return [(st, Val(rty, ZERO))]

    def p_log_debug(self, I, st, args, node, rty):
        return [(st, Val(rty, ZERO))]

    p_log_warning = p_log_debug

    def p_send_frame(self, I, st, args, node, rty):
        ctx, buf, ln = args
        out = []
        for s2, oid, off in I.targets(st, buf.t):
            if oid is None:
                I.oblige(False, 'null-deref', node, 'send_frame(NULL)')
                continue
            if not I.check_access(s2, oid, off, s2.canon(ln.t), node, 'send_frame buffer read'):
                continue
            o = s2.objs[oid]
            snap = {'obj': oid, 'off': s2.canon(off), 'len': s2.canon(ln.t), 'size': s2.canon(o.size),
                    'default': o.default, 'zeroed_n': o.zeroed_n,
                    'cells': tuple(sorted(((k, w, s2.canon(t)) for k, (w, t) in o.cells.items()), key=repr)),
                    'regions': mem.getattr_regions(o), 'ctx': s2.canon(ctx.t), 'fn': I.fn}
            n = sum(1 for e in s2.trace if e[0] == 'send')
            rc = ('sym', 'rc.send_frame.%d' % n, I32[0], I32[1])      # n-th transmit of this trace (no function name: renames are not behaviour)
            s2.effect(('send', Frozen(snap)))
            out.append((s2, Val(rty, rc)))
        return out

    # ---- getters with int status and typed out-parameter
    def _getter(self, I, st, args, node, rty, name, nbytes, ptr_index=1):
        rc = rc_atom(name)
        out = []
        for s2, oid, off in self.out_targets(I, st, args[ptr_index], nbytes, node, 'out-parameter of lltd_port_' + name):
            o = s2.objs[oid]
            old = mem.load_bytes(s2, o, off, nbytes)
            new = [('in', 'port.' + name, i) for i in range(nbytes)]
            d = s2.dom(rc)
            if d.const() == 0:
                bs = new
            elif not d.contains(0):
                bs = old
            else:
                bs = [('sel', rc, nb, ob) for nb, ob in zip(new, old)]
            I.raw_store(s2, oid, off, nbytes, bs)
            s2.effect(('get', name, s2.canon(args[0].t) if ptr_index == 1 else None))
            out.append((s2, Val(rty, rc)))
        return out

    def p_get_mtu(self, I, st, args, node, rty):
        out = []
        for s2, oid, off in self.out_targets(I, st, args[1], self.word, node, 'out-parameter of lltd_port_get_mtu'):
            s2.effect(('get', 'mtu', s2.canon(args[0].t)))
            if self.mtu_ok:
                I.raw_store(s2, oid, off, self.word, self.MTU, I.ix.parse_type('unsigned long'))
                out.append((s2, Val(rty, ZERO)))
            else:
                rc = rc_atom('get_mtu')
                s2.env[rc] = s2.dom(rc).without(0)
                out.append((s2, Val(rty, rc)))
        return out

    def p_get_mac_address(self, I, st, args, node, rty):
        return self._getter(I, st, args, node, rty, 'mac', 6)

    def p_get_if_type(self, I, st, args, node, rty):
        return self._getter(I, st, args, node, rty, 'if_type', 4)

    def p_get_ipv4_address(self, I, st, args, node, rty):
        return self._getter(I, st, args, node, rty, 'ipv4', 4)

    def p_get_ipv6_address(self, I, st, args, node, rty):
        return self._getter(I, st, args, node, rty, 'ipv6', 16)

    def p_get_link_speed_100bps(self, I, st, args, node, rty):
        return self._getter(I, st, args, node, rty, 'link_speed', 4)

    def p_get_wifi_mode(self, I, st, args, node, rty):
        return self._getter(I, st, args, node, rty, 'wifi_mode', 1)

    def p_get_bssid(self, I, st, args, node, rty):
        return self._getter(I, st, args, node, rty, 'bssid', 6)

    def p_get_wifi_max_rate_0_5mbps(self, I, st, args, node, rty):
        return self._getter(I, st, args, node, rty, 'wifi_max_rate', 2)

    def p_get_wifi_rssi_dbm(self, I, st, args, node, rty):
        return self._getter(I, st, args, node, rty, 'wifi_rssi', 1)

    def p_get_wifi_phy_medium(self, I, st, args, node, rty):
        return self._getter(I, st, args, node, rty, 'wifi_phy_medium', 4)

    def p_get_upnp_uuid(self, I, st, args, node, rty):
        return self._getter(I, st, args, node, rty, 'upnp_uuid', 16, ptr_index=0)

    def p_get_characteristics_flags(self, I, st, args, node, rty):
        st.effect(('get', 'characteristics_flags', st.canon(args[0].t)))
        return [(st, Val(rty, mk_cat([('in', 'port.characteristics_flags', i) for i in range(4)])))]

    # ---- getters filling a caller buffer, returning a length
    def _fill(self, I, st, args, node, rty, name, dst_i, len_i):
        dst, ln = args[dst_i], args[len_i]
        out = []
        lt = st.canon(ln.t)
        for s2, oid, off in I.targets(st, dst.t):
            if oid is None:
                out.append((s2, Val(rty, ZERO)))
                continue
            if not I.check_access(s2, oid, off, lt, node, 'destination of lltd_port_' + name):
                continue
            dn = s2.dom(lt)
            if dn.const() is None or dn.const() > 4096:
                raise Unsupported('getter with symbolic dst_len')
            cnt = int(dn.const())
            o = s2.objs[oid]
            old = mem.load_bytes(s2, o, off, cnt)
            ret = ('sym', 'ret.' + name, 0, SIZE_MAX if self.word == 8 else (1 << 32) - 1)
            # the port may write up to dst_len bytes; bytes it does not write keep their old content
            bs = [('selw', ret, i, ('in', 'port.' + name, i), ob) if ob != UNINIT else ('selw', ret, i, ('in', 'port.' + name, i), UNINIT)
                  for i, ob in enumerate(old)]
            I.raw_store(s2, oid, off, cnt, bs)
            s2.effect(('get', name, None, oid, s2.canon(off), cnt))
            out.append((s2, Val(rty, ret)))
        return out

    def p_get_hostname(self, I, st, args, node, rty):
        return self._fill(I, st, args, node, rty, 'hostname', 0, 1)

    def p_get_support_url(self, I, st, args, node, rty):
        return self._fill(I, st, args, node, rty, 'support_url', 0, 1)

    def p_get_hw_id(self, I, st, args, node, rty):
        return self._fill(I, st, args, node, rty, 'hw_id', 0, 1)

    def p_get_ssid(self, I, st, args, node, rty):
        return self._fill(I, st, args, node, rty, 'ssid', 1, 2)

    # ---- getters that allocate
    def _alloc_getter(self, I, st, args, node, rty, name):
        out = []
        rc = rc_atom('get_' + name)
        for s2, doid, doff in self.out_targets(I, st, args[0], self.word, node, 'out_data of lltd_port_get_' + name):
            for s3, soid, soff in self.out_targets(I, s2, args[1], self.word, node, 'out_size of lltd_port_get_' + name):
                s3.effect(('get', name, None))
                # failure: non-zero status, out-parameters untouched or cleared (both are allowed by the contract)
                f = s3.fork()
                if I.assume(f, ('eq', rc, ZERO), False):
                    f.path = f.path + (('get_%s fails' % name, True),)
                    out.append((f, Val(rty, rc)))
                # success: a fresh port-owned block
                if I.assume(s3, ('eq', rc, ZERO), True):
                    oid = 'heap:port.' + name
                    size = ('sym', 'port.%s.size' % name, 0, 32768)
                    old = s3.objs.get(oid)
                    if old is not None and old.live:
                        old.id = oid + '~leaked'
                        s3.objs[old.id] = old
                    o = s3.new_obj(oid, 'heap', size, default='unknown', heap=True, site=oid)
                    s3.effect(('malloc', oid, size))
                    I.raw_store(s3, doid, doff, self.word, ('ptr', oid, ZERO), I.ix.parse_type('void *'))
                    I.raw_store(s3, soid, soff, self.word, size, I.ix.parse_type('unsigned long'))
                    out.append((s3, Val(rty, ZERO)))
        return out

    def p_get_icon_image(self, I, st, args, node, rty):
        return self._alloc_getter(I, st, args, node, rty, 'icon_image')

    def p_get_friendly_name(self, I, st, args, node, rty):
        return self._alloc_getter(I, st, args, node, rty, 'friendly_name')


class Frozen(object):
    """Hashable wrapper for a snapshot dict (compared by content)."""
    __slots__ = ('d', '_k')

    def __init__(self, d):
        self.d = d
        self._k = repr(sorted(d.items(), key=lambda kv: kv[0]))

    def __eq__(self, o):
        return isinstance(o, Frozen) and self._k == o._k

    def __hash__(self):
        return hash(self._k)

    def __repr__(self):
        return 'Frozen(%s)' % self._k

    def __getitem__(self, k):
        return self.d[k]
