"""Specification tables written from the property text and MS-LLTD,
independently of the code under analysis (DESIGN.md Appendix A)."""

OPCODES = {'discover': 0, 'hello': 1, 'emit': 2, 'train': 3, 'probe': 4, 'ack': 5, 'query': 6, 'queryResp': 7,
           'reset': 8, 'charge': 9, 'flat': 10, 'queryLargeTlv': 11, 'queryLargeTlvResp': 12}
RESPONDER_MAY_SEND = {'hello', 'probe', 'train', 'ack', 'queryResp', 'queryLargeTlvResp'}
TOS_TOPOLOGY, TOS_QUICK = 0, 1
ETHERTYPE = 0x88D9

# session events (lltdAutomata.h alphabet, fixed by the documentation)
SESS = {'conflicting': 0, 'reset': 1, 'noack': 2, 'acking': 3, 'noack_chgd': 4, 'acking_chgd': 5,
        'topo_reset': 6, 'hello': 7}


def mapping_step(role, inp, cls):
    """Allowed successor roles of the mapping engine (C14)."""
    d, e, r = OPCODES['discover'], OPCODES['emit'], OPCODES['reset']
    if role == 'idle':
        return {'command'} if inp == d else {'idle'}
    if cls == 'expired':
        # falls back to idle; only a Discover may reopen a session in that same step
        return {'idle', 'command'} if inp == d else {'idle'}
    if role == 'command':
        if inp == e:
            return {'emit'}
        if inp in (r, -1):
            return {'idle'}
        return {'command'}
    if role == 'emit':
        if inp == -3:
            return {'command'}
        if inp in (r, -1):
            return {'idle'}
        return {'emit'}
    return None


def session_step(role, ev, cls):
    """Allowed successor roles of the session automaton (C15); None = unconstrained."""
    if ev < 0 or ev > 7:
        return None
    S = SESS
    base = _session_fresh(role, ev)
    if cls == 'expired':
        # expiry returns to Nascent; applying the event from Nascent in the same step is tolerated
        return {'nascent'} | _session_fresh('nascent', ev)
    return base


def _session_fresh(role, ev):
    S = SESS
    if ev == S['reset']:
        return {'nascent'}
    if role == 'nascent':
        return {S['noack']: {'pending'}, S['acking']: {'complete'}, S['conflicting']: {'temporary'}}.get(ev, {'nascent'})
    if role == 'pending':
        return {'complete'} if ev in (S['acking'], S['acking_chgd']) else {'pending'}
    if role == 'complete':
        return {'pending'} if ev == S['noack_chgd'] else {'complete'}
    if role == 'temporary':
        return {'nascent'} if ev in (S['hello'], S['topo_reset']) else {'temporary'}
    return {role}


# Hello TLVs: type -> (length rule, description)
TLV_LEN = {0x01: (6, 6), 0x02: (4, 4), 0x03: (4, 4), 0x04: (1, 1), 0x05: (6, 6), 0x06: (0, 32), 0x07: (4, 4),
           0x08: (16, 16), 0x09: (2, 2), 0x0A: (8, 8), 0x0C: (4, 4), 0x0D: (4, 4), 0x0E: (0, 0), 0x0F: (0, 32),
           0x10: (0, 64), 0x11: (0, 0), 0x12: (0, 16), 0x13: (0, 64), 0x14: (4, 4), 0x15: (0, 255), 0x16: (0, 255),
           0x17: (0, 255), 0x18: (0, 0), 0x19: (0, 255), 0x1A: (0, 0)}

BAND = {'NMAX': 10000, 'ALPHA': 45, 'BETA': 2, 'GAMMA': 10, 'TXC': 4}
HELLO_MIN_INTERVAL_MS = 1000
SESSION_EXPIRY_S = 60
MAPPING_INACTIVITY_S = 30
SESSION_TABLE_CAP = 16
