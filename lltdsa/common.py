"""Shared result / evidence / known-findings plumbing for the property checks."""
import json
import os
import re
import time

VERIF = os.path.dirname(os.path.dirname(os.path.abspath(__file__)))

PORT_CONTRACT = [
    "lltd_port_get_mtu either fails (non-zero, out-parameter untouched) or stores mtu in [576, 9216]; "
    "the receive buffer handed to the core is exactly that many bytes (at least 1500 when the platform cannot report an MTU)",
    "port getters write at most the dst_len they are given and either fill their out-parameter or leave it untouched",
    "lltd_port_malloc returns NULL or a fresh block of exactly the requested size; lltd_port_free releases it",
    "lltd_port_memset / lltd_port_memcpy have libc semantics",
    "monotonic clocks are non-decreasing and greater than zero",
    "the clang 14 front end (AST, record layouts) is faithful to the build's compilers for this C99 code",
]


class Finding(object):
    def __init__(self, prop, rule, key, msg, file=None, line=None, function=None, detail=None):
        self.prop = prop
        self.rule = rule
        self.key = key          # stable instance key: no line numbers
        self.msg = msg
        self.file = file
        self.line = line
        self.function = function
        self.detail = detail

    def ident(self):
        return '%s|%s' % (self.rule, self.key)

    def to_json(self):
        return {'property': self.prop, 'rule': self.rule, 'instance': self.key,
                'file': self.file, 'line': self.line, 'function': self.function,
                'message': self.msg, 'detail': self.detail}


FUNCTION_LOCATIONS = {}      # function name -> (repo-relative file, line) of its definition; filled by facts.Program


class Report(object):
    """Collects obligations, findings and coverage for one property run."""

    def __init__(self, prop, tier):
        self.prop = prop
        self.tier = tier
        self.findings = []
        self.obligations = 0
        self.discharged = 0
        self.rules = {}          # rule -> {'instances': n, 'floor': m, 'what': str}
        self.samples = []
        self.notes = []
        self.analysed = {}
        self.t0 = time.time()
        self.broken = []

    def rule(self, rule, what, floor=0):
        r = self.rules.setdefault(rule, {'instances': 0, 'floor': floor, 'what': what, 'failed': 0})
        r['floor'] = max(r['floor'], floor)
        return r

    def ok(self, rule, sample=None, n=1):
        self.obligations += n
        self.discharged += n
        self.rules.setdefault(rule, {'instances': 0, 'floor': 0, 'what': '', 'failed': 0})['instances'] += n
        if sample is not None and len(self.samples) < 40:
            self.samples.append(sample)

    def fail(self, rule, key, msg, node=None, function=None, detail=None, file=None, line=None):
        self.obligations += 1
        r = self.rules.setdefault(rule, {'instances': 0, 'floor': 0, 'what': '', 'failed': 0})
        r['instances'] += 1
        r['failed'] += 1
        if node is not None:
            from .facts import REPO
            file = node.get('_file')
            if file and file.startswith(REPO + '/'):
                file = file[len(REPO) + 1:]
            line = node.get('_line')
        if line is None and function:
            # a finding about a function as a whole: point at its definition
            loc = FUNCTION_LOCATIONS.get(function)
            if loc is not None and (file is None or file == loc[0]):
                file, line = loc
        f = Finding(self.prop, rule, key, msg, file, line, function, detail)
        for g in self.findings:
            if g.ident() == f.ident():
                return g
        self.findings.append(f)
        return f

    def check(self, cond, rule, key, msg, sample=None, **kw):
        if cond:
            self.ok(rule, sample)
        else:
            self.fail(rule, key, msg, **kw)
        return cond

    def broke(self, what):
        self.broken.append(what)

    def note(self, s):
        self.notes.append(s)


def load_known():
    known, fixed = [], []
    p = os.path.join(VERIF, 'KNOWN_FINDINGS')
    if os.path.exists(p):
        for line in open(p):
            line = line.strip()
            if line.startswith('known:'):
                m = re.match(r'known:\s+property=(\S+)\s+instance=(\S+)\s+(.*)$', line)
                if m:
                    known.append((m.group(1), m.group(2), m.group(3)))
            elif line.startswith('fixed:'):
                fixed.append(line)
    return known, fixed


def finish(rep, level, explanation, technique, assumptions=None, extra=None, exhaustive=False):
    """Write evidence, print verdict lines, return exit code."""
    known, _ = load_known()
    for name, r in sorted(rep.rules.items()):
        if r['instances'] < r['floor']:
            rep.broke('rule %s matched %d instances, floor confirmed by hand is %d (%s)'
                      % (name, r['instances'], r['floor'], r['what']))
    viol, kf = [], []
    for f in rep.findings:
        hit = [k for k in known if k[0] == rep.prop and k[1] == f.ident()]
        if hit:
            kf.append((f, hit[0][2]))
        else:
            viol.append(f)
    wall = time.time() - rep.t0
    cov = {
        'obligations': rep.obligations,
        'discharged': rep.discharged + len(kf) if False else rep.discharged,
        'checker_cmd': './check %s --tier %s' % (rep.prop, rep.tier),
        'trusted_base': ['clang 14 front end (AST / record layouts)', 'lltdsa engine (this repository)',
                         'oracle tables in lltdsa/oracle.py', 'port contract (assumptions)'],
        'explanation': explanation,
        'technique': technique,
        'rules': rep.rules,
        'samples': rep.samples[:40] or ['(no sample recorded)'],
        'analysed': rep.analysed,
        'notes': rep.notes,
        'known_findings_matched': [f.ident() for f, _ in kf],
        'exhaustive': bool(exhaustive),
        'evaluations': max(1, rep.obligations),
        'distinct_nontrivial': max(2, len([r for r in rep.rules.values() if r['instances']])),
        'rule': 'one obligation per rule instance found in the current source; distinct = rule instances with >=1 site',
    }
    if extra:
        cov.update(extra)
    ev = {
        'property_id': rep.prop, 'tier': rep.tier, 'seed': int(os.environ.get('VERIF_SEED', '0') or 0),
        'level': level, 'coverage': cov,
        'assumptions': assumptions if assumptions is not None else PORT_CONTRACT,
        'wall_s': round(wall, 3), 'violations': len(viol),
    }
    if rep.broken:
        ev['coverage']['analysis_broken'] = rep.broken
    evdir = os.environ.get('LLTD_EVIDENCE_DIR') or os.path.join(VERIF, 'evidence')
    os.makedirs(evdir, exist_ok=True)
    with open(os.path.join(evdir, rep.prop + '.json'), 'w') as fh:
        json.dump(ev, fh, indent=1, sort_keys=True, default=str)
        fh.write('\n')
    print('%s tier=%s obligations=%d discharged=%d rules=%d wall=%.2fs' %
          (rep.prop, rep.tier, rep.obligations, rep.discharged, len(rep.rules), wall))
    for name, r in sorted(rep.rules.items()):
        print('  rule %-10s instances=%-4d failed=%-3d floor=%-3d %s' % (name, r['instances'], r['failed'], r['floor'], r['what']))
    for f, why in kf:
        print('KNOWN-FINDING: property=%s %s :: %s (%s)' % (rep.prop, f.ident(), f.msg, why))
    if rep.broken and not viol:
        for b in rep.broken:
            print('ANALYSIS-BROKEN property=%s %s' % (rep.prop, b))
        return 2
    if viol:
        for b in rep.broken:
            print('note: analysis incomplete (%s); the violations below stand on their own' % b)
        rpdir = os.environ.get('LLTD_REPLAY_DIR') or os.path.join(VERIF, 'replay')
        os.makedirs(rpdir, exist_ok=True)
        for i, f in enumerate(viol):
            path = os.path.join(rpdir, '%s-%d.json' % (rep.prop, i))
            with open(path, 'w') as fh:
                json.dump(f.to_json(), fh, indent=1, default=str)
                fh.write('\n')
            print('  %s:%s %s [%s] %s' % (f.file, f.line, f.function or '', f.ident(), f.msg))
            print('VIOLATION property=%s replay=%s' % (rep.prop, path))
        return 1
    return 0
