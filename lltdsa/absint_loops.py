"""Loops: concrete execution while the condition is decided, otherwise one
symbolic iteration (havoc + affine induction variables)."""
import os
from .facts import AnalysisBroken, where
DEBUG = bool(os.environ.get('LLTD_DEBUG_LOOPS'))
from .terms import (C, ZERO, ONE, UNINIT, Dom, INF, Lin, lin_of, term_of_lin, is_const, short)
from .state import Unsupported
from . import mem
from .absint import Val, MAX_CONCRETE_ITERS
from .absint_ops import Machine


class LateCellConflict(Exception):
    def __init__(self, lid):
        Exception.__init__(self, 'loop %s: a path that changes a cell assumed not loop-carried can start another iteration' % lid)
        self.lid = lid


def facts_word():
    from .facts import WORD
    return WORD


MAX_LOOP_STATES = 24


class Undecided(Exception):
    pass


class LoopMachine(Machine):

    def loop_id(self, s):
        key = id(s)
        lid = self.loop_ids.get(key)
        if lid is None:
            n = sum(1 for v in self.loop_ids.values() if v.startswith(self.fn + '#'))
            lid = '%s#L%d' % (self.fn, n)
            self.loop_ids[key] = lid
        return lid

    def s_ForStmt(self, st, s):
        init, condvar, cond, inc, body = (s['inner'] + [{}] * 5)[:5]
        declared = []
        states = [st]
        if init and init.get('kind'):
            if init['kind'] == 'DeclStmt':
                declared = [d['id'] for d in init.get('inner', []) if d.get('kind') == 'VarDecl']
            states = [s2 for s2, _ in self.exec_stmt(st, init)]
        out = []
        for s2 in states:
            out.extend(self.run_loop(s2, s, cond if cond.get('kind') else None, inc if inc.get('kind') else None, body, True))
        for s2, ctl in out:
            fr = s2.frames[-1]
            for did in declared:
                oid = fr.pop(did, None)
                if oid:
                    s2.objs.pop(oid, None)
        return self.merge(out)

    def s_WhileStmt(self, st, s):
        cond, body = s['inner'][0], s['inner'][-1]
        return self.merge(self.run_loop(st, s, cond, None, body, True))

    def s_DoStmt(self, st, s):
        body, cond = s['inner'][0], s['inner'][1]
        return self.merge(self.run_loop(st, s, cond, None, body, False))

    # ------------------------------------------------------------------
    force_summary = False      # rules that reason per iteration ask for the inductive summary of every loop

    def run_loop(self, st, s, cond, inc, body, cond_first):
        entry = st.fork()
        only = getattr(self, 'force_summary_fns', None)
        if self.force_summary and not getattr(self, 'quiet', False) and (only is None or self.fn in only):
            return self.summarise_retry(entry, s, cond, inc, body, cond_first)
        try:
            return self.run_concrete(st, s, cond, inc, body, cond_first)
        except Undecided:
            return self.summarise_retry(entry, s, cond, inc, body, cond_first)

    def summarise_retry(self, entry, s, cond, inc, body, cond_first):
        """The summary first assumes that a cell changed only on paths that then fail the loop condition is not loop-carried;
        if an iteration contradicts that, the loop is summarised again with those cells carried (havocked)."""
        keep = entry.fork()
        try:
            return self.summarise(entry, s, cond, inc, body, cond_first)
        except LateCellConflict as e:
            self.no_late_loops = set(getattr(self, 'no_late_loops', ())) | {e.lid}
            return self.summarise(keep, s, cond, inc, body, cond_first)

    def eval_cond_decided(self, st, cond):
        """-> [(state, bool)], raising Undecided if the domain cannot decide."""
        out = []
        for s2, cv in self.rval(st, cond):
            t = cv.t
            if t[0] not in ('eq', 'ne', 'lt', 'le', 'lnot', 'c'):
                t = self.cmp(s2, 'ne', t, ZERO)
            if not is_const(t):
                # a retry loop: the condition hangs on whether the port accepted the last transmit - both answers are followed
                # (the unrolling then either ends within the state budget or revisits a loop head: see run_concrete)
                from .terms import atoms_of
                ats = atoms_of(s2.canon(t))
                if ats and all(a[0] == 'sym' and str(a[1]).startswith('rc.send_frame.') for a in ats):
                    a_, b_ = self.branch(s2, Val(cv.ty, t))
                    if a_ is not None:
                        out.append((a_, True))
                    if b_ is not None:
                        out.append((b_, False))
                    continue
                raise Undecided()
            out.append((s2, t[1] != 0))
        return out

    def head_memory(self, st):
        """Everything a state holds in memory (not its trace): two visits of a loop head with the same memory differ only in
        what the port answered in between."""
        sig = []
        for oid, o in st.objs.items():
            if o.kind in ('str', 'global') or o.weak:
                continue
            sig.append((oid, o.default, repr(sorted(((k, w, st.canon(ct)) for k, (w, ct) in o.cells.items()), key=repr))))
        # (the n-th transmit's answer is a symbol of its own: which transmit it was is part of the trace, not of the memory)
        import re as _re
        return hash(_re.sub(r'rc\.send_frame\.\d+', 'rc.send_frame.*', repr(sorted(sig, key=repr))))

    def head_sig(self, st):
        """Abstract signature of a state at the head of an endless loop (`for (;;)` re-evaluation loops - the iterative
        spelling of a tail call): the constants and small finite sets it holds.  Same rule as the recursion cut in
        inline(): re-entering with a signature already explored contributes nothing new (least fix-point)."""
        sig = []
        for oid, o in sorted(st.objs.items()):
            if o.kind in ('str', 'global') or o.weak:
                continue
            cs = []
            for k, (w, ct) in sorted(o.cells.items(), key=repr):
                ct = st.canon(ct)
                if is_const(ct):
                    cs.append((k, ct))
                elif w <= 2 and ct[0] not in ('ptr', 'pset', 'fn'):
                    dd = st.dom(ct)
                    if dd.size() <= 4:
                        cs.append((k, repr(dd)))
            sig.append((oid, tuple(cs)))
        return tuple(sig)

    def run_concrete(self, st, s, cond, inc, body, cond_first):
        cur = [st]
        exits = []
        first = True
        seen_heads = {}
        head_mems = {}
        trace0 = len(st.trace)
        for it in range(MAX_CONCRETE_ITERS + 1):
            if it == MAX_CONCRETE_ITERS:
                raise Undecided()
            if cond is None and inc is None:
                fresh = []
                for s2 in cur:
                    sg = self.head_sig(s2)
                    if sg in seen_heads:
                        if seen_heads[sg] != s2.trace:
                            # the signature does not tell the two visits apart, but something was done in between
                            # (a node popped and released): not a fix-point of a finite-state re-evaluation - summarise
                            raise Undecided()
                        s2.tags['loop_cut'] = s2.tags.get('loop_cut', 0) + 1
                        continue
                    seen_heads[sg] = s2.trace
                    fresh.append(s2)
                cur = fresh
                if not cur:
                    break
            # a loop that repeats a port call until it is accepted: coming back to the head with the very memory of an earlier
            # visit - only the port's answers in between differ - means that a port which keeps refusing keeps the loop going
            # for ever (no counter advanced, no deadline read)
            kept = []
            for s2 in cur:
                if len(s2.trace) > trace0 and any(e[0] in ('send', 'malloc-failed') for e in s2.trace[trace0:]):
                    hm = self.head_memory(s2)
                    if hm in head_mems and head_mems[hm] < it:
                        if DEBUG: print("RETRY", it, self.fn, [e[0] for e in s2.trace[trace0:]], len(cur))
                        self.oblige(False, 'retry-unbounded', s,
                                    'the loop comes back to its head in exactly the state of an earlier iteration after the port refused a request: while the '
                                    'port keeps refusing, nothing bounds the retries and the responder never returns to its receive loop')
                        continue
                    head_mems.setdefault(hm, it)
                kept.append(s2)
            cur = kept
            if not cur:
                break
            run = []
            if cond is not None and (cond_first or not first):
                for s2 in cur:
                    for s3, tv in self.eval_cond_decided(s2, cond):
                        if tv:
                            run.append(s3)
                        else:
                            exits.append((s3, None))
            else:
                run = cur
            first = False
            if not run:
                break
            nxt = []
            for s2 in run:
                for s3, ctl in self.exec_stmt(s2, body):
                    if ctl is None or ctl == ('continue',):
                        nxt.append(s3)
                    elif ctl == ('break',):
                        exits.append((s3, None))
                    else:
                        exits.append((s3, ctl))
            cur = []
            for s2 in nxt:
                if inc is not None:
                    cur.extend(s3 for s3, _ in self.rval(s2, inc))
                else:
                    cur.append(s2)
            if len(cur) > 1:
                cur = [x[0] for x in self.merge([(c, None) for c in cur])]
            if len(cur) + len(exits) > getattr(self, 'max_loop_states', MAX_LOOP_STATES):
                if DEBUG: print("loop states", self.fn, it, len(cur), len(exits))
                raise Undecided()
            if not cur:
                break
        return exits

    # ------------------------------------------------------------------ summary mode
    def one_iteration(self, h, cond, inc, body, cond_first):
        """Run cond(true) ; body ; inc from state h -> (continuing, breaking, returning, cond_false)"""
        cont, brk, ret, exitf = [], [], [], []
        starts = []
        if cond is not None and cond_first:
            for s2, cv in self.rval(h, cond):
                s_t, s_f = self.branch(s2, cv)
                if s_t is not None:
                    starts.append(s_t)
                if s_f is not None:
                    exitf.append(s_f)
        else:
            starts = [h]
        for s2 in starts:
            for s3, ctl in self.exec_stmt(s2, body):
                if ctl is None or ctl == ('continue',):
                    if inc is not None:
                        for s4, _ in self.rval(s3, inc):
                            cont.append(s4)
                    else:
                        cont.append(s3)
                elif ctl == ('break',):
                    brk.append(s3)
                else:
                    ret.append((s3, ctl))
        if cond is not None and not cond_first:
            c2 = []
            for s2 in cont:
                for s3, cv in self.rval(s2, cond):
                    s_t, s_f = self.branch(s3, cv)
                    if s_t is not None:
                        c2.append(s_t)
                    if s_f is not None:
                        exitf.append(s_f)
            cont = c2
        return cont, brk, ret, exitf

    def disequality_invariant(self, entry, lid, mods, smashed, induct, cond):
        """`while (p != end)` / `for (i = a; i != n; i += s)` / `for (w = 0; w != n && node; w++)`: with closed forms a
        conjunct of the condition reads a*k + c != 0.
        (1) c constant with a*0 + c on the far side of 0 and a | c: the walk reaches equality before passing it, so
            a*k + c <= 0 (a > 0) resp. >= 0 (a < 0) holds at the head of every iteration.
        (2) |a| = 1 and c a loop-invariant expression the entry state knows to be on the far side of 0 (0 - n <= 0): a unit
            step cannot jump over equality either, same conclusion.
        (Induction: true at head 0; true at head k and conjunct true => strictly on the far side => true at head k+1.)
        -> list of Lin facts (each <= 0) or None"""
        kterm = ('sym', 'iter:' + lid, 0, INF)
        saved_obs, saved_quiet, saved_log = self.obs, getattr(self, 'quiet', False), getattr(self, 'store_log', None)
        self.quiet, self.obs, self.store_log = True, {}, None
        try:
            h = entry.fork()
            self.apply_havoc(h, lid, mods, smashed, induct, entry)
            conj = []

            def split(e, neg=False):
                while e.get('kind') in ('ParenExpr', 'ImplicitCastExpr') and e.get('inner'):
                    e = e['inner'][0]
                if e.get('kind') == 'BinaryOperator' and e.get('opcode') == ('||' if neg else '&&'):
                    split(e['inner'][0], neg)          # (De Morgan: `!(node == NULL || remaining == 0)`)
                    split(e['inner'][1], neg)
                elif e.get('kind') == 'UnaryOperator' and e.get('opcode') == '!':
                    split(e['inner'][0], not neg)
                else:
                    conj.append((e, neg))
            split(cond)
            invs = []
            for e, neg in conj:
                try:
                    outs = list(self.rval(h.fork(), e))
                except Exception:
                    continue
                if (getattr(self, 'debug_loops', False) or DEBUG):
                    print('disequality_invariant', lid, neg, [short(cv.t) for _s, cv in outs])
                if len(outs) != 1:
                    continue
                s2, cv = outs[0]
                t = cv.t
                if t[0] == 'lnot' and t[1][0] == 'eq':
                    t = ('ne', t[1][1], t[1][2])
                if neg:
                    t = ('ne', t[1], t[2]) if t[0] == 'eq' else ('eq', t[1], t[2]) if t[0] == 'ne' else ('?',)
                if t[0] != 'ne':
                    continue
                a, b = s2.canon(t[1]), s2.canon(t[2])
                if a[0] == 'ptr' and b[0] == 'ptr' and a[1] == b[1]:
                    a, b = a[2], b[2]
                elif a[0] in ('ptr', 'pset', 'fn') or b[0] in ('ptr', 'pset', 'fn'):
                    continue
                l = lin_of(s2.canon(a)).add(lin_of(s2.canon(b)), -1)
                if kterm not in l.co:
                    continue
                co, c = l.co[kterm], l.k
                if set(l.co) == {kterm}:
                    if co > 0 and c <= 0 and (-c) % co == 0:
                        invs.append(Lin({kterm: co}, c))                    # co*k + c <= 0
                    elif co < 0 and c >= 0 and c % (-co) == 0:
                        invs.append(Lin({kterm: -co}, -c))                  # -(co*k + c) <= 0
                    continue
                if abs(co) != 1 or not all(x == kterm or loop_invariant(x, lid) for x in l.co):
                    continue
                rest = Lin({x: v for x, v in l.co.items() if x != kterm}, c)
                if co == 1 and entry.entails_le0(rest):
                    invs.append(l)                                          # k + rest <= 0
                elif co == -1 and entry.entails_le0(rest.scale(-1)):
                    invs.append(l.scale(-1))                                # k - rest <= 0
            return invs or None
        except Exception:
            return None
        finally:
            self.obs, self.quiet, self.store_log = saved_obs, saved_quiet, saved_log

    def condition_facts(self, h, cond, lid):
        """What the loop condition, when true at iteration k, establishes about k and loop-invariant quantities:
        (upper bound on k | None, [linear facts a*k + rest + c <= 0 with loop-invariant rest])."""
        kterm = ('sym', 'iter:' + lid, 0, INF)
        saved_obs, saved_quiet, saved_log = self.obs, getattr(self, 'quiet', False), getattr(self, 'store_log', None)
        self.quiet, self.obs, self.store_log = True, {}, None
        per_state = []
        try:
            pre = set(f.key() for f in h.facts)      # (`a && b` already assumes `a` while it is evaluated)
            for s2, cv in self.rval(h.fork(), cond):
                s_t, _s_f = self.branch(s2, cv)
                if s_t is None:
                    continue
                fs_ = {}
                for f in s_t.facts:
                    if f.key() in pre or kterm not in f.co:
                        continue
                    if all(a == kterm or loop_invariant(a, lid) for a in f.co):
                        fs_[f.key()] = f
                per_state.append((s_t.dom(kterm).hi, fs_))
        except Exception:
            per_state = []
        finally:
            self.obs, self.quiet, self.store_log = saved_obs, saved_quiet, saved_log
        if not per_state:
            return None
        hi = max(x[0] for x in per_state)
        common = set(per_state[0][1])
        for _h, fs_ in per_state[1:]:
            common &= set(fs_)
        return (hi if hi != INF else None, [per_state[0][1][k_] for k_ in sorted(common, key=repr)])

    def apply_previous_condition(self, exitf, prev, lid):
        """A loop left through its condition at iteration k >= 1 ran iteration k-1, whose condition was true: transfer
        what that established (shifted by one iteration) to the exit states; split off k == 0 only where needed."""
        kterm = ('sym', 'iter:' + lid, 0, INF)
        hi, facts = prev
        out = []
        for s2 in exitf:
            if hi is not None:
                if not s2.refine(kterm, Dom(0, hi + 1)):
                    continue
            shifted = []
            for f in facts:
                g = Lin(dict(f.co), f.k - f.co[kterm])
                shifted.append(g)
            need_split = []
            for g in shifted:
                if s2.entails_le0(g):
                    continue
                z = s2.fork()
                if z.refine(kterm, Dom(0, 0)) and z.entails_le0(g):
                    s2.add_fact(g)      # also true when the loop never ran
                else:
                    need_split.append(g)
            if not need_split:
                out.append(s2)
                continue
            z = s2.fork()
            if z.refine(kterm, Dom(0, 0)) and z.consistent():
                out.append(z)
            if s2.refine(kterm, Dom(1, INF)):
                for g in need_split:
                    s2.add_fact(g)
                if s2.consistent():
                    out.append(s2)
        return out

    def next_condition(self, st, cond):
        """'T' / 'F' / '?': value of the loop condition in state st (nothing is recorded)."""
        if cond is None:
            return 'T'
        saved_obs, saved_quiet, saved_log = self.obs, getattr(self, 'quiet', False), getattr(self, 'store_log', None)
        self.quiet, self.obs, self.store_log = True, {}, None
        can_t = can_f = False
        try:
            for s2, cv in self.rval(st.fork(), cond):
                s_t, s_f = self.branch(s2, cv)
                if (getattr(self, 'debug_loops', False) or DEBUG):
                    print('next_condition', short(cv.t), 'T' if s_t is not None else '-', 'F' if s_f is not None else '-')
                if s_t is not None and not sharp_infeasible(s_t):
                    can_t = True
                if s_f is not None and not sharp_infeasible(s_f):
                    can_f = True
        finally:
            self.obs, self.quiet, self.store_log = saved_obs, saved_quiet, saved_log
        return 'T' if can_t and not can_f else 'F' if can_f and not can_t else '?'

    def summarise(self, entry, s, cond, inc, body, cond_first):
        lid = self.loop_id(s)
        entry_objs = set(entry.objs)
        # ---- discovery of the modified cells (obligations and effects are not recorded)
        mods = {}      # (oid, key) -> [n, ty, [terms...]]
        smashed = set()
        saved_obs, saved_quiet = self.obs, getattr(self, 'quiet', False)
        self.quiet = True
        try:
            for rnd in range(5):
                self.obs = {}
                h = entry.fork()
                self.apply_havoc(h, lid, mods, smashed, None, entry)
                log = []
                self.store_log = log
                h.trace = ()
                hstart = h.fork()
                cont, brk, ret, exitf = self.one_iteration(h, cond, inc, body, cond_first)
                self.store_log = None
                new = False
                for oid, key, n, ty, t in log:
                    if oid not in entry_objs:
                        continue
                    if key[0]:
                        if oid not in smashed:
                            smashed.add(oid)
                            new = True
                        continue
                    m = mods.get((oid, key))
                    if m is None:
                        mods[(oid, key)] = [n, ty, [t]]
                        new = True
                    else:
                        if n > m[0]:
                            m[0] = n
                            new = True
                        if t not in m[2] and len(m[2]) < 8:
                            m[2].append(t)
                if not new:
                    break
            else:
                raise AnalysisBroken('loop %s: modified set did not stabilise' % lid)
            written_cells = dict(mods)
            # bounded accumulators: an integer cell that every store of the body sets to "its value at the start of the
            # iteration plus a constant in [0, c]" (a counter of matches / expired entries) stays within
            # [entry value, entry value + c * k] at the head of iteration k (induction on k; all stores of the body are in the log)
            self.acc_bounds = dict(getattr(self, 'acc_bounds', {}))
            self.acc_bounds.pop(lid, None)
            accb = {}
            from . import terms as _terms
            for (oid, key), (n, ty, terms_) in mods.items():
                if ty is None or ty.kind != 'int' or oid in smashed or key[0] or oid not in entry.objs or len(terms_) >= 8:
                    continue
                atom_ = ('sym', 'hv:%s:%s+%s' % (lid, oid, key[1]), ty.minmax()[0], ty.minmax()[1])
                try:
                    init_ = entry.canon(mem.load_scalar(entry, entry.objs[oid].copy(), term_of_lin(Lin(dict(key[0]), key[1])), ty))
                except Exception:
                    continue
                if init_ == UNINIT or init_[0] in ('ptr', 'pset', 'fn'):
                    continue
                cmax, okb = 0, True
                for t_ in terms_:
                    if t_ is None:
                        okb = False
                        break
                    if t_[0] == 'sym' and t_[1] in _terms.OPAQUE_DEFS:
                        t_ = _terms.OPAQUE_DEFS[t_[1]]
                    try:
                        lt_ = lin_of(t_)
                    except Exception:
                        okb = False
                        break
                    d1 = lt_.add(lin_of(atom_), -1)
                    d2 = lt_.add(lin_of(init_), -1)
                    dc = d1 if d1.is_const() else d2 if d2.is_const() else None
                    if dc is None or not (0 <= dc.k <= 255):
                        okb = False
                        break
                    cmax = max(cmax, dc.k)
                if okb and cmax >= 1:
                    accb[(oid, key)] = (cmax, init_)
            if accb:
                self.acc_bounds[lid] = accb
            # cells written only on leaving paths (break/return) are not loop-carried: every
            # continuing path of the most general iteration leaves them as they were
            # A cell changed only on continuing paths that then fail the loop condition (`found = true` in
            # `while (i < n && !found)`) is not loop-carried either: no iteration starts with the changed value.  Those
            # paths leave the loop after the iteration; they are emitted as exits of the recorded iteration (late_cells).
            reenters = {}

            def can_reenter(s2):
                if cond is None or not cond_first:
                    return True
                r = reenters.get(id(s2))
                if r is None:
                    r = False
                    try:
                        for s3, cv in self.rval(s2.fork(), cond):
                            s_t, _sf = self.branch(s3, cv)
                            if s_t is not None and not sharp_infeasible(s_t):
                                r = True
                                break
                    except Exception:
                        r = True
                    reenters[id(s2)] = r
                return r
            late_cells = set()
            for (oid, key) in list(mods):
                if oid in smashed:
                    continue
                o0 = hstart.objs.get(oid)
                c0 = o0.cells.get(key) if o0 is not None else None
                if c0 is None:
                    continue
                carried = False
                late = False
                for s2 in cont:
                    o2 = s2.objs.get(oid)
                    c2 = o2.cells.get(key) if o2 is not None else None
                    if c2 is None or c2[0] != c0[0] or s2.canon(c2[1]) != s2.canon(c0[1]):
                        if can_reenter(s2):
                            carried = True
                            break
                        late = True
                if not carried and cont:
                    if late and lid in getattr(self, 'no_late_loops', ()):
                        continue          # (second attempt for this loop: treat the cell as loop-carried after all)
                    del mods[(oid, key)]
                    if late:
                        late_cells.add((oid, key))
            # ---- affine induction variables: guess from the first iteration, then check inductively
            self.obs = {}
            h0 = entry.fork()
            h0.trace = ()
            cont0, _b, _r, _e = self.one_iteration(h0, cond, inc, body, cond_first)
            # a continuing path that cannot start another iteration (`node = NULL; /* ends the loop */`) leaves right after
            # this one: the closed forms need not hold on it (it is emitted as an exit of the recorded iteration below)
            cont0r = [s2 for s2 in cont0 if can_reenter(s2)]
            cands = {}
            for (oid, key), (n, ty, _) in mods.items():
                if ty is not None and ty.kind == 'ptr' and oid not in smashed and oid in entry.objs:
                    init = entry.canon(mem.load_scalar(entry, entry.objs[oid].copy(), term_of_lin(Lin(dict(key[0]), key[1])), ty))
                    if init != UNINIT and init[0] == 'ptr':
                        step, okv = None, bool(cont0r)
                        for s2 in cont0r:
                            o2 = s2.objs.get(oid)
                            cell = o2.cells.get(key) if o2 is not None else None
                            v2 = s2.canon(cell[1]) if cell is not None else None
                            if v2 is None or cell[0] != n or v2[0] != 'ptr' or v2[1] != init[1]:
                                okv = False
                                break
                            l = lin_of(s2.canon(v2[2])).add(lin_of(s2.canon(init[2])), -1)
                            if not l.is_const() or (step is not None and step != l.k):
                                okv = False
                                break
                            step = l.k
                        if okv and step:
                            cands[(oid, key)] = ('ptr', init[1], init[2], step)
                    continue
                if ty is None or ty.kind != 'int' or oid in smashed or oid not in entry.objs:
                    continue
                init = mem.load_scalar(entry, entry.objs[oid].copy(), term_of_lin(Lin(dict(key[0]), key[1])), ty)
                if init == UNINIT or init[0] in ('ptr', 'pset', 'fn'):
                    continue
                step = None
                okv = bool(cont0r)
                later = []
                for s2 in cont0r:
                    o2 = s2.objs.get(oid)
                    cell = o2.cells.get(key) if o2 is not None else None
                    if cell is None or cell[0] != n or cell[1][0] in ('ptr', 'pset', 'fn'):
                        okv = False
                        break
                    # (the path may have learnt the initial value, e.g. `last = (remaining == 1)`: compare under its knowledge)
                    l = lin_of(s2.canon(cell[1])).add(lin_of(s2.canon(init)), -1)
                    if not l.is_const():
                        later.append((s2, l))       # decided by entailment once the step is known from another path
                        continue
                    if step is not None and step != l.k:
                        okv = False
                        break
                    step = l.k
                if okv and later:
                    if step is None:
                        okv = False
                    for s2, l in later:
                        if not okv:
                            break
                        d1 = Lin(dict(l.co), l.k - step)
                        okv = s2.entails_le0(d1) and s2.entails_le0(d1.scale(-1))
                if okv and step:
                    cands[(oid, key)] = step
                elif (getattr(self, 'debug_loops', False) or DEBUG):
                    print('loop', lid, 'not a candidate', oid, key, 'init', short(entry.canon(init)), 'n', n, 'step', step, 'after', [(s2.objs[oid].cells[key][0], short(s2.canon(s2.objs[oid].cells[key][1])), repr(lin_of(s2.canon(s2.objs[oid].cells[key][1])).add(lin_of(entry.canon(init)), -1))) for s2 in cont0 if oid in s2.objs and key in s2.objs[oid].cells][:8])
            kterm = ('sym', 'iter:' + lid, 0, INF)
            self.loop_invs = dict(getattr(self, 'loop_invs', {}))
            self.loop_invs.pop(lid, None)
            for _round in range(6):
                if not cands:
                    break
                # simultaneous induction: the disequality invariant follows from the closed forms being checked, and the
                # closed forms (no wrap of `written++`) may need it; both hold at the first head, each is carried by the other
                self.loop_invs.pop(lid, None)
                if cond is not None and cond_first:
                    inv = self.disequality_invariant(entry, lid, mods, smashed, cands, cond)
                    if inv is not None:
                        self.loop_invs[lid] = inv
                self.obs = {}
                hv_ = entry.fork()
                self.apply_havoc(hv_, lid, mods, smashed, cands, entry)
                hv_.trace = ()
                contv, _b, _r, _e = self.one_iteration(hv_, cond, inc, body, cond_first)
                contv = [s2 for s2 in contv if can_reenter(s2)]
                badc = set()
                for (oid, key), step in cands.items():
                    n, ty, _ = mods[(oid, key)]
                    if isinstance(step, tuple):
                        _tag, tgt, off0, pstep = step
                        expect = lin_of(entry.canon(off0)).add(Lin({kterm: pstep}, pstep))
                        for s2 in contv:
                            o2 = s2.objs.get(oid)
                            cell = o2.cells.get(key) if o2 is not None else None
                            v2 = s2.canon(cell[1]) if cell is not None else None
                            if v2 is None or cell[0] != n or v2[0] != 'ptr' or v2[1] != tgt:
                                badc.add((oid, key))
                                break
                            l = lin_of(s2.canon(v2[2])).add(lin_of(s2.canon(term_of_lin(expect))), -1)
                            if not (l.is_const() and l.k == 0):
                                badc.add((oid, key))
                                break
                        continue
                    init = mem.load_scalar(entry, entry.objs[oid].copy(), term_of_lin(Lin(dict(key[0]), key[1])), ty)
                    expect = lin_of(entry.canon(init)).add(Lin({kterm: step}, step))
                    for s2 in contv:
                        o2 = s2.objs.get(oid)
                        cell = o2.cells.get(key) if o2 is not None else None
                        if cell is None or cell[0] != n:
                            badc.add((oid, key))
                            break
                        l = lin_of(s2.canon(cell[1])).add(lin_of(s2.canon(term_of_lin(expect))), -1)
                        if not (l.is_const() and l.k == 0):
                            if (getattr(self, 'debug_loops', False) or DEBUG):
                                print('   cell', short(s2.canon(cell[1])), 'expected', expect, [repr(f) for f in s2.facts])
                            badc.add((oid, key))
                            break
                if not badc:
                    break
                if (getattr(self, 'debug_loops', False) or DEBUG):
                    print('loop', lid, 'candidates rejected', badc, 'of', cands)
                for c in badc:
                    del cands[c]
            else:
                cands = {}
            induct = cands
            self.loop_invs.pop(lid, None)
            if induct and cond is not None and cond_first:
                inv = self.disequality_invariant(entry, lid, mods, smashed, induct, cond)
                if inv is not None:
                    self.loop_invs[lid] = inv
            # ---- probe run with the closed forms: where do symbolic-offset stores land?
            symstores = []
            k2dom = None
            if smashed:
                self.obs = {}
                hp = entry.fork()
                self.apply_havoc(hp, lid, mods, smashed, induct, entry)
                log = []
                self.store_log = log
                hp.trace = ()
                pc, pb, pr, pe = self.one_iteration(hp, cond, inc, body, cond_first)
                self.store_log = None
                kterm = ('sym', 'iter:' + lid, 0, INF)
                k2 = ('sym', 'iter2:' + lid, 0, INF)
                # every iteration that executed started with the condition true: its index lies in the
                # range the condition allows (taken from the states that assumed it)
                k2dom = None
                for s2 in list(pc) + list(pb) + [x for x, _ in pr]:
                    d = s2.dom(kterm)
                    k2dom = d if k2dom is None else k2dom.join(d)
                for oid, key, n, ty, t in log:
                    if oid in smashed and key[0]:
                        sk = tuple((k2 if a == kterm else a, c) for a, c in key[0])
                        symstores.append((oid, (sk, key[1]), n))
        finally:
            self.obs = saved_obs
            self.quiet = saved_quiet
            self.store_log = None
        # ---- the recorded symbolic iteration
        h = entry.fork()
        self.apply_havoc(h, lid, mods, smashed, induct, entry)
        if symstores and k2dom is not None:
            h.refine(('sym', 'iter2:' + lid, 0, INF), Dom(k2dom.lo, k2dom.hi))
            # tighten the "may have been written by an earlier iteration" region of each smashed object
            # to the hull of its symbolic-offset stores
            hull = {}
            for oid, key, n in symstores:
                lo_, hi_ = mem._sym_range(h, key[0], {})
                if lo_ in (INF, -INF) or hi_ in (INF, -INF) or not isinstance(n, int):
                    hull[oid] = None
                    continue
                a, b = lo_ + key[1], hi_ + key[1] + n
                cur = hull.get(oid, (a, b))
                if cur is not None:
                    hull[oid] = (min(cur[0], a), max(cur[1], b))
            for oid, hb in hull.items():
                o = h.objs.get(oid)
                if o is None or hb is None or not isinstance(o.ptr_fields, dict):
                    continue
                regs = o.ptr_fields.get('__regions__', ())
                if regs and regs[-1][2] == 'loop:' + lid:
                    pf = dict(o.ptr_fields)
                    pf['__regions__'] = tuple(regs[:-1]) + ((((), int(max(0, hb[0]))), C(int(hb[1] - max(0, hb[0]))), 'loop:' + lid),)
                    o.ptr_fields = pf
        for oid, key, n in symstores:
            o = h.objs.get(oid)
            if o is None:
                continue
            for (s2k, c2), (w2, t2) in list(o.cells.items()):
                if not s2k and mem.may_overlap(h, key, n, (s2k, c2), w2):
                    o.cells[(s2k, c2)] = (w2, ('sym', 'smash:%s:%s+%s' % (lid, oid, c2), 0, (1 << (8 * w2)) - 1))
        base_trace = entry.trace
        h.trace = ()
        h.tags = dict(h.tags)
        live_before = set(oid for oid, o in h.objs.items() if o.heap and o.live)
        iter_start = h.fork() if getattr(self, 'keep_iter_states', False) else None
        prev_facts = self.condition_facts(h, cond, lid) if (cond is not None and cond_first and induct) else None
        head_vals = {}
        for (oid, key) in late_cells:
            o0 = h.objs.get(oid)
            c0 = o0.cells.get(key) if o0 is not None else None
            head_vals[(oid, key)] = (c0[0], h.canon(c0[1])) if c0 is not None else None
        self.recording_iteration = getattr(self, 'recording_iteration', 0) + 1
        try:
            cont, brk, ret, exitf = self.one_iteration(h, cond, inc, body, cond_first)
        finally:
            self.recording_iteration -= 1
        for s2 in list(cont) + list(brk) + list(exitf):
            if 'ret-site' in s2.tags:        # (a return inside a called function, not out of this loop)
                s2.tags = dict(s2.tags)
                s2.tags.pop('ret-site', None)
        if prev_facts:
            exitf = self.apply_previous_condition(exitf, prev_facts, lid)
        late_exits = []
        if late_cells:
            # continuing paths that changed a not-carried cell: they cannot start another iteration (checked above for the
            # most general iteration, re-checked here), so they leave through the condition right after this iteration
            keep = []
            for s2 in cont:
                changed = False
                for (oid, key), hv_ in head_vals.items():
                    o2 = s2.objs.get(oid)
                    c2 = o2.cells.get(key) if o2 is not None else None
                    if hv_ is None or c2 is None or c2[0] != hv_[0] or s2.canon(c2[1]) != s2.canon(hv_[1]):
                        changed = True
                        break
                if not changed:
                    keep.append(s2)
                    continue
                saved_obs2, saved_quiet2 = self.obs, getattr(self, 'quiet', False)
                self.quiet, self.obs = True, {}
                try:
                    for s3, cv in self.rval(s2.fork(), cond):
                        s_t, s_f = self.branch(s3, cv)
                        if s_t is not None and not sharp_infeasible(s_t):
                            raise LateCellConflict(lid)
                        if s_f is not None:
                            s_f.trace = s2.trace
                            late_exits.append(s_f)
                finally:
                    self.obs, self.quiet = saved_obs2, saved_quiet2
            cont = keep
            for s_f in late_exits:
                s_f.tags = dict(s_f.tags)
                s_f.tags['late-exit:' + lid] = True
            brk = list(brk) + late_exits          # "leaves after this iteration", like a break at its end
        if induct:
            # continuing paths on which a closed form does not hold were excused above because they cannot start another
            # iteration: they leave through the condition right after this one, with the values they have
            kterm_ = ('sym', 'iter:' + lid, 0, INF)

            def closed_forms_hold(s2):
                for (oid, key), step in induct.items():
                    n, ty, _ = mods[(oid, key)]
                    o2 = s2.objs.get(oid)
                    cell = o2.cells.get(key) if o2 is not None else None
                    if cell is None or cell[0] != n:
                        return False
                    if isinstance(step, tuple):
                        _tag, tgt, off0, pstep = step
                        v2 = s2.canon(cell[1])
                        if v2[0] != 'ptr' or v2[1] != tgt:
                            return False
                        expect = lin_of(entry.canon(off0)).add(Lin({kterm_: pstep}, pstep))
                        l = lin_of(s2.canon(v2[2])).add(lin_of(s2.canon(term_of_lin(expect))), -1)
                    else:
                        init = mem.load_scalar(entry, entry.objs[oid].copy(), term_of_lin(Lin(dict(key[0]), key[1])), ty)
                        expect = lin_of(entry.canon(init)).add(Lin({kterm_: step}, step))
                        l = lin_of(s2.canon(cell[1])).add(lin_of(s2.canon(term_of_lin(expect))), -1)
                    if not (l.is_const() and l.k == 0):
                        return False
                return True
            keep2, late2 = [], []
            for s2 in cont:
                if closed_forms_hold(s2):
                    keep2.append(s2)
                    continue
                saved_obs2, saved_quiet2 = self.obs, getattr(self, 'quiet', False)
                self.quiet, self.obs = True, {}
                try:
                    for s3, cv in self.rval(s2.fork(), cond):
                        s_t, s_f = self.branch(s3, cv)
                        if s_t is not None and not sharp_infeasible(s_t):
                            raise AnalysisBroken('loop %s: a path that can start another iteration does not keep the closed forms of the induction variables' % lid)
                        if s_f is not None:
                            s_f.trace = s2.trace
                            s_f.tags = dict(s_f.tags)
                            s_f.tags['late-exit:' + lid] = True
                            late2.append(s_f)
                finally:
                    self.obs, self.quiet = saved_obs2, saved_quiet2
            if late2:
                cont = keep2
                brk = list(brk) + late2
        iter_traces = set()
        keep = getattr(self, 'keep_iter_states', False)
        snap_states = []
        if keep:
            for s2 in cont:
                snap = s2.fork()
                # is the loop condition true / false after this iteration?  (`last iteration` without depending on
                # how the code spells it: up-counting index, countdown, pointer walk ...)
                snap.tags = dict(snap.tags)
                snap.tags['next:' + lid] = self.next_condition(s2, cond) if cond_first else 'T'
                snap_states.append(('continue', s2.trace, snap))
            for s2 in brk:
                snap_states.append(('break', s2.trace, s2.fork()))
            for s2, _c in ret:
                snap_states.append(('return', s2.trace, s2.fork()))
        # leaving through the loop condition: index n_ is what the `exit:<lid>` tag of the state carries
        exit_snaps = [s2.fork() for s2 in exitf] if keep else None
        for s2 in cont:
            iter_traces.add(s2.trace)
            leaked = [oid for oid, o in s2.objs.items() if o.heap and o.live and oid not in live_before
                      and not s2.tags.get('retained:' + oid)]
            self.oblige(not leaked, 'loop-leak', s, 'object(s) %s allocated in loop %s are still live at the end of an iteration' % (leaked, lid))
        for s2, how in [(x, 'break') for x in brk] + [(x, 'return') for x, _c in ret]:
            # how the loop was left stays visible to the rules (the cursor local is gone by the time the function returns)
            s2.tags = dict(s2.tags)
            nulls = []
            for oid_, ob_ in s2.objs.items():
                if oid_.startswith('L:'):
                    for key_, (w_, t_) in ob_.cells.items():
                        if w_ == facts_word() and not key_[0] and s2.canon(t_) == ZERO:
                            nulls.append(oid_)
            site = s2.tags.pop('ret-site', None)
            if how == 'return' and site is not None:
                # states leaving through different `return` statements are kept apart (each knows why it left)
                s2.tags['left-by-return:' + lid] = tuple(sorted(set(nulls))) + ('@' + str(site),)
            else:
                s2.tags['left-by-%s:%s' % (how, lid)] = tuple(sorted(set(nulls))) or True
        loop_eff = ('loop', lid, tuple(sorted(iter_traces, key=repr)))
        # flags a scan accumulates (1-byte cells of enclosing locals the body may write): their value on
        # leaving the loop is kept as a tag, so rules need not depend on the break-vs-condition idiom
        flag_cells = [(oid, key) for (oid, key), (n, ty, _) in written_cells.items()
                      if n == 1 and oid.startswith('L:') and not key[0] and oid not in smashed]

        def tag_flags(s2):
            if not getattr(self, 'tag_loop_flags', False):
                return
            vals = []
            for oid, key in sorted(flag_cells):
                o2 = s2.objs.get(oid)
                c2 = o2.cells.get(key) if o2 is not None else None
                if c2 is not None:
                    vals.append((oid.split('.', 1)[-1], c2[1]))
            s2.tags['lv:' + lid] = tuple(vals)
        # every scalar local the body writes that is not a loop counter (flags and match counters alike): (name, value on
        # leaving the loop), for rules that recognise a scan by what its accumulator says afterwards
        acc_cells = [(oid, key) for (oid, key), (n, ty, _) in written_cells.items()
                     if n in (1, 2, 4, 8) and oid.startswith('L:') and not key[0] and oid not in smashed and (oid, key) not in (induct or {})]

        def tag_accumulators(s2):
            if not getattr(self, 'keep_iter_states', False):
                return
            vals = []
            for oid, key in sorted(acc_cells):
                o2 = s2.objs.get(oid)
                c2 = o2.cells.get(key) if o2 is not None else None
                if c2 is not None and c2[1][0] not in ('ptr', 'pset', 'fn'):
                    vals.append((oid, c2[1]))
            if vals:
                s2.tags = dict(s2.tags)
                s2.tags['lw:' + lid] = tuple(vals)
        for s2 in exitf + brk + [x for x, _ in ret]:
            tag_flags(s2)
            tag_accumulators(s2)
        outs = []
        if len(exitf) > 1:
            # keep the reason for leaving the loop (which conjunct of the condition failed) distinguishable
            for n_, s2 in enumerate(exitf):
                s2.tags['exit:' + lid] = n_
        for s2 in exitf:
            s2.trace = base_trace + ((loop_eff,) if iter_traces and any(iter_traces) else ())
            outs.append((s2, None))
        if cond is None or not cond_first:
            pass
        for s2 in brk:
            s2.trace = base_trace + ((loop_eff,) if iter_traces and any(iter_traces) else ()) + (('last-iteration', s2.trace),) \
                if s2.trace else base_trace + ((loop_eff,) if iter_traces and any(iter_traces) else ())
            outs.append((s2, None))
        for s2, ctl in ret:
            s2.trace = base_trace + ((loop_eff,) if iter_traces and any(iter_traces) else ()) + ((('last-iteration', s2.trace),) if s2.trace else ())
            outs.append((s2, ctl))
        info = getattr(self, 'loop_info', None)
        if info is not None:
            info[lid] = {'induction': {('%s%s' % (oid, key[1])): (st_[3] if isinstance(st_, tuple) else st_) for (oid, key), st_ in induct.items()},
                         'modified': sorted('%s+%s' % (oid, key[1]) for (oid, key) in mods),
                         'smashed': sorted(smashed), 'iter_traces': len(iter_traces), 'node': s,
                         'iter_states': snap_states if keep else None, 'iter_start': iter_start, 'exit_snaps': exit_snaps,
                         'exit_states': len(exitf)}
        return outs

    havoc_atoms = {}

    def apply_havoc(self, h, lid, mods, smashed, induct, entry):
        if induct is None:
            self.havoc_atoms = dict(getattr(self, 'havoc_atoms', {}))
        kterm = ('sym', 'iter:' + lid, 0, INF)
        for (oid, key), (n, ty, terms) in mods.items():
            o = h.objs.get(oid)
            if o is None or oid in smashed:
                continue
            if o.weak:
                continue
            init = mem.load_scalar(h, entry.objs[oid].copy(), term_of_lin(Lin(dict(key[0]), key[1])), ty) \
                if ty is not None and ty.kind in ('int', 'ptr') else None
            if ty is not None and ty.kind == 'ptr':
                cands = []
                for t in ([init] if init is not None else []) + terms:
                    t = h.canon(t) if t is not None else None
                    if t is None or t == UNINIT:
                        continue
                    if t[0] == 'pset':
                        for x in t[2]:
                            if x not in cands:
                                cands.append(x)
                    elif t not in cands:
                        cands.append(t)
                pind = (induct or {}).get((oid, key))
                if pind is not None and isinstance(pind, tuple):
                    # pointer induction variable: base + step * k inside one object
                    _tag, tgt, off0, step = pind
                    val = ('ptr', tgt, self.simp(('add', off0, ('mul', C(step), kterm))))
                elif any(c[0] not in ('ptr', 'c', 'fn') for c in cands) or not cands:
                    val = ('sym', 'unkptr:loop:%s' % lid, 0, INF)
                elif len(cands) == 1:
                    val = cands[0]
                elif len(cands) >= 2 and all(c[0] == 'ptr' and c[1] == cands[0][1] for c in cands):
                    # a cursor stepping through one object: "somewhere in it" (keeps the discovery finite)
                    val = ('ptr', cands[0][1], ('sym', 'hvoff:%s:%s+%s' % (lid, oid, key[1]), 0, INF))
                else:
                    val = ('pset', ('sym', '%s:%s+%s' % (lid, oid, key[1]), 0, 0), tuple(cands))
                mem.kill_range(h, o, key[0], key[1], n)
                o.cells[key] = (n, val)
                continue
            if ty is not None and ty.kind == 'int':
                lo, hi = ty.minmax()
                if induct and (oid, key) in induct and not isinstance(induct[(oid, key)], tuple) and init is not None and init != UNINIT:
                    step = induct[(oid, key)]
                    val = self.simp(('add', init, ('mul', C(step), kterm)))
                    # the variable holds a value of its type at the start of every iteration
                    if is_const(init) and step > 0:
                        h.refine(kterm, Dom(0, (hi - init[1]) // step))
                    elif is_const(init) and step < 0:
                        h.refine(kterm, Dom(0, (init[1] - lo) // (-step)))
                    h.add_fact(lin_of(val).add(Lin({}, -hi)))
                    h.add_fact(lin_of(val).scale(-1).add(Lin({}, lo)))
                else:
                    val = ('sym', 'hv:%s:%s+%s' % (lid, oid, key[1]), lo, hi)
                    ab_ = (getattr(self, 'acc_bounds', {}).get(lid) or {}).get((oid, key)) if induct is not None else None
                    if ab_ is not None:
                        cmax_, init_ = ab_
                        h.add_fact(lin_of(val).add(lin_of(init_), -1).add(Lin({kterm: cmax_}, 0), -1))      # val <= init + cmax * k
                        h.add_fact(lin_of(init_).add(lin_of(val), -1))                                       # init <= val
                    self.havoc_atoms[(lid, oid, key)] = val
                mem.kill_range(h, o, key[0], key[1], n)
                o.cells[key] = (n, val)
                continue
            # aggregate / unknown type: bytes become unknown but initialised
            mem.kill_range(h, o, key[0], key[1], n)
            for i in range(n):
                o.cells[(key[0], key[1] + i)] = (1, ('sym', 'hv:%s:%s+%s' % (lid, oid, key[1] + i), 0, 255))
        for oid in smashed:
            o = h.objs.get(oid)
            if o is None or o.weak:
                continue
            for k in [k for k in o.cells if k[0]]:
                del o.cells[k]
            mem.add_region(o, ((), 0), o.size, 'loop:' + lid)
        if induct:
            for inv in getattr(self, 'loop_invs', {}).get(lid) or ():
                if len(inv.co) == 1 and kterm in inv.co and inv.co[kterm] > 0:
                    h.refine(kterm, Dom(0, (-inv.k) // inv.co[kterm]))
                h.add_fact(inv)


def loop_invariant(atom, lid):
    """An atom of a linear fact that cannot change from one iteration of loop `lid` to the next."""
    r = repr(atom)
    return not any(x in r for x in ('iter:' + lid, 'iter2:' + lid, 'hv:', 'weak:', 'region:', 'smash:', 'wrapped:'))


def sharp_infeasible(st):
    """A state whose inequalities force two terms equal that it knows to differ (x <= y, y <= x, x != y) is infeasible;
    `assume` does not look for this combination."""
    for pr in st._neq_canon():
        if len(pr) != 2:
            continue
        x, y = tuple(pr)
        if x[0] in ('ptr', 'pset', 'fn') or y[0] in ('ptr', 'pset', 'fn'):
            continue
        if st.prove_le(x, y) and st.prove_le(y, x):
            return True
    for a, d in list(st.env.items()):
        if not d.ex or len(d.ex) > 4 or a[0] in ('in', 'sym'):
            continue
        for v in d.ex:
            if st.prove_le(a, C(v)) and st.prove_le(C(v), a):
                return True
    return False
