"""Abstract machine state: objects (byte-addressed cell stores), environment
of refinements, equality store, linear facts, effect trace, typestate."""
from .terms import (rebuild, C, ZERO, UNINIT, Dom, TOP, BYTE, BOOL, INF, Lin, lin_of, fm_infeasible, is_const,
                    mk_byte, mk_cat, to_bytes, mk_sext, short)


class Unsupported(Exception):
    """Construct outside the closed subset the engine interprets (=> analysis broken)."""


class Cells(dict):
    """dict of cells that maintains an order-independent hash of its items."""
    __slots__ = ('h',)

    def __init__(self, *a):
        dict.__init__(self, *a)
        if a and isinstance(a[0], Cells):
            self.h = a[0].h
        else:
            h = 0
            for kv in dict.items(self):
                h ^= hash(kv)
            self.h = h

    def __setitem__(self, k, v):
        old = dict.get(self, k)
        if old is not None:
            self.h ^= hash((k, old))
        self.h ^= hash((k, v))
        dict.__setitem__(self, k, v)

    def __delitem__(self, k):
        self.h ^= hash((k, dict.__getitem__(self, k)))
        dict.__delitem__(self, k)

    def pop(self, k, *d):
        if k in self:
            v = dict.__getitem__(self, k)
            self.h ^= hash((k, v))
            dict.__delitem__(self, k)
            return v
        if d:
            return d[0]
        raise KeyError(k)

    def clear(self):
        dict.clear(self)
        self.h = 0

    def update(self, *a, **k):
        for kk, v in dict(*a, **k).items():
            self[kk] = v

    def setdefault(self, k, d=None):
        if k not in self:
            self[k] = d
        return dict.__getitem__(self, k)

    def __reduce__(self):
        return (Cells, (dict(self),))


class Obj(object):
    __slots__ = ('id', 'kind', 'size', 'cells', 'default', 'live', 'heap', 'weak', 'site', 'ro', 'zeroed_n',
                 'ptr_fields', 'name', 'epoch')

    def __init__(self, oid, kind, size, default='uninit', heap=False, weak=False, site=None, ro=False):
        self.id = oid
        self.kind = kind          # local param global heap input str ext
        self.size = size          # term
        self.cells = Cells()      # (symkey, const_off) -> (width, term)
        self.default = default    # uninit zero sym unknown
        self.live = True
        self.heap = heap
        self.weak = weak
        self.site = site
        self.ro = ro
        self.zeroed_n = None      # term n of memset(p,0,n) covering the object from offset 0
        self.ptr_fields = None    # for summary/input objects: off -> tuple of possible pointer terms
        self.name = oid
        self.epoch = ()           # stores since the last region was added: ((symkey, const), width) - region reads
                                  # are named by how many of them may overlap the location read

    def copy(self):
        o = Obj.__new__(Obj)
        o.id, o.kind, o.size, o.default = self.id, self.kind, self.size, self.default
        o.cells = Cells(self.cells)
        o.live, o.heap, o.weak, o.site, o.ro = self.live, self.heap, self.weak, self.site, self.ro
        o.zeroed_n = self.zeroed_n
        o.ptr_fields = self.ptr_fields
        o.name = self.name
        o.epoch = self.epoch
        return o


def split_off(lin):
    """Lin -> (symkey, const)."""
    return (tuple(sorted(lin.co.items(), key=repr)), lin.k)


class State(object):
    _cc = None
    input_dom = None      # optional: atom -> Dom, value ranges of typed input objects (an entry assumption)

    def __init__(self):
        self.objs = {}
        self.env = {}           # term -> Dom
        self.eq = {}            # term -> representative
        self.neq = set()        # frozenset({a,b})
        self.facts = []         # Lin <= 0
        self.trace = ()
        self.frames = []        # list of dict declid -> objid
        self.stack = ()         # call stack (function names / signatures)
        self.dead = False
        self.counter = [0]      # shared fresh-name counter (deterministic)
        self.tags = {}          # rule-owned annotations
        self.path = ()          # branch decisions (diagnostics only; not part of identity)

    def fork(self):
        s = State.__new__(State)
        s.objs = {k: v.copy() for k, v in self.objs.items()}
        s.env = dict(self.env)
        s.eq = dict(self.eq)
        s.neq = set(self.neq)
        s.facts = list(self.facts)
        s.trace = self.trace
        s.frames = [dict(f) for f in self.frames]
        s.stack = self.stack
        s.dead = self.dead
        s.counter = self.counter
        s.tags = dict(self.tags)
        s.path = self.path
        s._cc = None
        s._dc = None
        s._cm = None
        s.input_dom = self.input_dom
        return s

    # ---- fresh names
    def fresh(self, prefix):
        self.counter[0] += 1
        return '%s#%d' % (prefix, self.counter[0])

    # ---- equality store
    def canon(self, t):
        if t[0] == 'c':
            return t
        if not has_special(t):
            if not self.eq:
                return t
            cc = self.__dict__.get('_cc')
            if cc is None or self.__dict__.get('_ccn') != len(self.eq) or self.__dict__.get('_cci') != id(self.eq):
                cc = self._cc = {}
                self._ccn = len(self.eq)
                self._cci = id(self.eq)
            r = cc.get(t)
            if r is None:
                r = cc[t] = self._canon(t)
            return r
        return self._canon(t)

    def same(self, a, b):
        """Are the two terms known to denote the same value?"""
        a, b = self.uncat(self.canon(a)), self.uncat(self.canon(b))
        if a == b:
            return True
        da, db = self.dom(a), self.dom(b)
        ca, cb = da.const(), db.const()
        return ca is not None and ca == cb

    def uncat(self, t):
        """cat(byte(x,0), ..., byte(x,n-1)) -> x when x is known to fit n bytes."""
        if t[0] == 'cat':
            bs = t[1]
            b0 = bs[0]
            if b0[0] == 'byte' and b0[2] == 0:
                x = b0[1]
                if all(b == ('byte', x, i) for i, b in enumerate(bs)):
                    d = self.dom(x)
                    if d.lo >= 0 and d.hi < (1 << (8 * len(bs))):
                        return x
        elif t[0] == 'byte' and t[2] == 0:
            d = self.dom(t[1])
            if d.lo >= 0 and d.hi < 256:
                return t[1]
        return t

    def touch(self):
        self._cc = None

    def _canon(self, t):
        memo = self._cm
        if memo is None:
            self._cm = {}
            try:
                return self._canon1(t)
            finally:
                self._cm = None
        return self._canon1(t)

    _cm = None

    def _canon1(self, t):
        k0 = t[0]
        if k0 == 'c':
            return t
        memo = self._cm
        if memo is not None:
            r0 = memo.get(t)
            if r0 is not None:
                return r0
        res = self._canon2(t)
        if memo is not None:
            memo[t] = res
        return res

    def _canon2(self, t):
        r = self.eq.get(t)
        seen = 0
        while r is not None and r != t and seen < 50:
            t = r
            r = self.eq.get(t)
            seen += 1
        k = t[0]
        if k in ('c', 'in', 'sym', 'uninit', 'fn'):
            return t
        if k == 'cat':
            bs = tuple(self._canon1(b) for b in t[1])
            n = mk_cat(bs)
            return self.eq.get(n, n)
        if k == 'ptr':
            return ('ptr', t[1], self._canon1(t[2]))
        if k == 'pset':
            return ('pset', t[1], tuple(self._canon1(x) for x in t[2]))
        if k == 'sel':
            d = self._dom(self._canon1(t[1]), 0)
            if d.const() == 0:
                return self._canon1(t[2])
            if not d.contains(0):
                return self._canon1(t[3])
            return ('sel', t[1], self._canon1(t[2]), self._canon1(t[3]))
        if k == 'selw':
            d = self._dom(self._canon1(t[1]), 0)
            if d.lo > t[2]:
                return self._canon1(t[3])
            if d.hi <= t[2]:
                return self._canon1(t[4])
            return ('selw', t[1], t[2], self._canon1(t[3]), self._canon1(t[4]) if t[4] != ('uninit',) else t[4])
        if k == 'blob':
            return ('blob', tuple(self._canon1(x) for x in t[1]))
        out = [k]
        ch = False
        for x in t[1:]:
            if isinstance(x, tuple):
                y = self._canon1(x)
                ch = ch or (y is not x and y != x)
                out.append(y)
            else:
                out.append(x)
        if ch:
            n = rebuild(k, out[1:])
            return self.eq.get(n, n)
        return t

    @staticmethod
    def _rank(t):
        # representative preference: constants, then input atoms of the frame, then others
        k = t[0]
        if k == 'c':
            return (0, repr(t))
        if k == 'in':
            return (1 if str(t[1]).startswith('frame') else 2, repr(t))
        if k == 'sym':
            return (3, repr(t))
        return (4, repr(t))

    def _top_bit_test(self, a, b):
        """(x & m) compared with 0, m a power of two and 0 <= x < 2m: the test is on x's top bit -> (x, m), else None."""
        for t, z in ((a, b), (b, a)):
            if z == ('c', 0) and t[0] == 'and' and len(t) == 3:
                for x, m in ((t[1], t[2]), (t[2], t[1])):
                    if m[0] == 'c' and m[1] > 0 and (m[1] & (m[1] - 1)) == 0 and x[0] != 'c':
                        d = self.dom(x)
                        if d.lo >= 0 and d.hi < 2 * m[1]:
                            return x, m[1]
        return None

    def union(self, a, b):
        a, b = self.canon(a), self.canon(b)
        if a == b:
            return True
        tb = self._top_bit_test(a, b)
        if tb is not None:
            return self.refine(tb[0], Dom(0, tb[1] - 1))
        if a[0] == 'cat' and b[0] == 'cat' or (a[0] == 'cat' and b[0] in ('in', 'byte')) or (b[0] == 'cat' and a[0] in ('in', 'byte')):
            n = max(len(a[1]) if a[0] == 'cat' else 1, len(b[1]) if b[0] == 'cat' else 1)
            ok = True
            for k in range(n):
                ok = self.union(mk_byte(a, k), mk_byte(b, k)) and ok
            return ok
        for x, y in ((a, b), (b, a)):
            if x[0] == 'cat' and y[0] == 'c':
                v = y[1]
                if v < 0 or v >= (1 << (8 * len(x[1]))):
                    return False
                ok = True
                for k, lane in enumerate(x[1]):
                    ok = self.union(lane, C((v >> (8 * k)) & 0xFF)) and ok
                return ok
        if frozenset((a, b)) in self._neq_canon():
            return False
        da, db = self.dom(a), self.dom(b)
        d = da.meet(db)
        if d.empty():
            return False
        if self._rank(a) <= self._rank(b):
            rep, other = a, b
        else:
            rep, other = b, a
        if other[0] == 'c':
            rep, other = other, rep
        self.eq[other] = rep
        self._cc = None
        if rep[0] != 'c':
            self.env[rep] = d
        return True

    def _neq_canon(self):
        if not self.neq:
            return self.neq
        out = set()
        for p in self.neq:
            l = [self.canon(x) for x in p]
            if len(l) == 2:
                out.add(frozenset(l))
        return out

    def add_neq(self, a, b):
        a, b = self.canon(a), self.canon(b)
        if a == b:
            return False
        tb = self._top_bit_test(a, b)
        if tb is not None:
            return self.refine(tb[0], Dom(tb[1], 2 * tb[1] - 1))
        if is_const(b) and not is_const(a):
            if a[0] in ('add', 'sub', 'mul', 'neg'):
                # c*x + k != v  <=>  x != (v - k)/c  (vacuous when c does not divide): lets interval ends move
                l = lin_of(a)
                if len(l.co) == 1:
                    (x, c), = l.co.items()
                    if x[0] not in ('add', 'sub', 'mul', 'neg') and c != 0:
                        if (b[1] - l.k) % c != 0:
                            return True
                        return self.add_neq(x, C((b[1] - l.k) // c))
            d = self.dom(a).without(b[1])
            if d.empty():
                return False
            self.env[a] = d
            return True
        if is_const(a) and not is_const(b):
            return self.add_neq(b, a)
        if is_const(a) and is_const(b):
            return a[1] != b[1]
        self.neq.add(frozenset((a, b)))
        return True

    def known_neq(self, a, b):
        a, b = self.canon(a), self.canon(b)
        if a == b:
            return False
        if frozenset((a, b)) in self._neq_canon():
            return True
        da, db = self.dom(a), self.dom(b)
        if da.hi < db.lo or db.hi < da.lo:
            return True
        ca, cb = da.const(), db.const()
        if ca is not None and not db.contains(ca):
            return True
        if cb is not None and not da.contains(cb):
            return True
        return False

    # ---- ranges
    def dom(self, t):
        t = self._canon(t)
        self._dc = {}
        try:
            return self._dom(t, 0)
        finally:
            self._dc = None

    _dc = None

    def _dom(self, t, depth):
        k = t[0]
        if k == 'c':
            return Dom(t[1], t[1])
        e = self.env.get(t)
        if k == 'in':
            if e is not None:
                return e
            h = self.input_dom
            if h is not None:
                d = h(t)
                if d is not None:
                    return d
            return BYTE
        if k == 'sym':
            d = Dom(t[2], t[3])
            return d.meet(e) if e is not None else d
        if depth > 12:
            return e if e is not None else TOP
        # shared sub-terms (byte lanes of one wrapped value) are evaluated once per query
        dc = self._dc
        if dc is not None:
            r = dc.get(t)
            if r is not None:
                return r
        d = self._dom_struct(t, depth)
        if e is not None:
            d = d.meet(e)
        if dc is not None:
            dc[t] = d
        return d

    def _dom_struct(self, t, depth):
        k = t[0]
        D = lambda x: self._dom(x, depth + 1)
        if k == 'sel':
            return D(t[2]).join(D(t[3]))
        if k == 'selw':
            return D(t[3]).join(D(t[4])) if t[4] != UNINIT else BYTE
        if k == 'byte' or k == 'sxb':
            if k == 'sxb':
                b = D(t[1])
                if b.hi < 128:
                    return Dom(0, 0)
                if b.lo >= 128:
                    return Dom(255, 255)
                return Dom(0, 255, frozenset(range(1, 255)))
            d = D(t[1])
            if d.lo >= 0 and d.hi != INF:
                top = int(d.hi) >> (8 * t[2])
                if top < 255:
                    return Dom(0, top)
                # all values of the range agree above this byte lane: the lane runs through an interval without wrapping
                lo_s, hi_s = int(d.lo) >> (8 * t[2]), int(d.hi) >> (8 * t[2])
                if (lo_s >> 8) == (hi_s >> 8):
                    return Dom(lo_s & 0xFF, hi_s & 0xFF)
            return BYTE
        if k == 'cat':
            lo = hi = 0
            for i, b in enumerate(t[1]):
                if b == UNINIT:
                    return Dom(0, (1 << (8 * len(t[1]))) - 1)
                d = D(b)
                dl, dh = max(0, d.lo), min(255, d.hi)
                lo += dl << (8 * i)
                hi += dh << (8 * i)
            return Dom(lo, hi)
        if k == 'sext':
            w = t[2]
            d = D(t[1])
            half = 1 << (8 * w - 1)
            if d.lo >= 0 and d.hi < half:
                return d
            if d.lo >= half and d.hi < 2 * half:
                return Dom(d.lo - 2 * half, d.hi - 2 * half)
            return Dom(-half, half - 1)
        if k in ('eq', 'ne', 'lt', 'le', 'lnot'):
            return BOOL
        if k == 'add':
            a, b = D(t[1]), D(t[2])
            return Dom(a.lo + b.lo, a.hi + b.hi)
        if k == 'sub':
            a, b = D(t[1]), D(t[2])
            return Dom(a.lo - b.hi, a.hi - b.lo)
        if k == 'neg':
            a = D(t[1])
            return Dom(-a.hi, -a.lo)
        if k == 'mul':
            a, b = D(t[1]), D(t[2])
            ps = []
            for x in (a.lo, a.hi):
                for y in (b.lo, b.hi):
                    if (x in (INF, -INF) and y == 0) or (y in (INF, -INF) and x == 0):
                        ps.append(0)
                    else:
                        ps.append(x * y)
            return Dom(min(ps), max(ps))
        if k == 'div':
            a, b = D(t[1]), D(t[2])
            if b.lo > 0 and a.lo >= 0:
                hi = a.hi // b.lo if a.hi != INF else INF
                lo = a.lo // b.hi if b.hi != INF else 0
                return Dom(lo, hi)
            if b.lo > 0:
                m = max(abs(a.lo), abs(a.hi))
                return Dom(-m, m)
            return TOP
        if k == 'mod':
            a, b = D(t[1]), D(t[2])
            if b.lo > 0 and a.lo >= 0:
                return Dom(0, min(a.hi, b.hi - 1))
            if b.lo > 0:
                return Dom(-(b.hi - 1), b.hi - 1)
            return TOP
        if k in ('and', 'or', 'xor'):
            a, b = D(t[1]), D(t[2])
            if a.lo >= 0 and b.lo >= 0:
                if k == 'and':
                    return Dom(0, min(a.hi, b.hi))
                m = max(a.hi, b.hi)
                if m == INF:
                    return Dom(0, INF)
                bits = int(m).bit_length()
                lo = max(a.lo, b.lo) if k == 'or' else 0
                return Dom(lo, (1 << bits) - 1)
            if k == 'and' and (a.lo >= 0 or b.lo >= 0):
                return Dom(0, a.hi if a.lo >= 0 else b.hi)
            return TOP
        if k == 'shl':
            a, b = D(t[1]), D(t[2])
            if a.lo >= 0 and b.lo >= 0 and b.hi < 128:
                return Dom(a.lo << int(b.lo), a.hi << int(b.hi) if a.hi != INF else INF)
            return TOP
        if k == 'shr':
            a, b = D(t[1]), D(t[2])
            if a.lo >= 0 and b.lo >= 0 and b.hi < 128:
                return Dom(int(a.lo) >> int(b.hi), (int(a.hi) >> int(b.lo)) if a.hi != INF else INF)
            return TOP
        if k == 'bnot':
            return TOP
        if k in ('ptr', 'pset', 'fn'):
            return Dom(1, INF) if k != 'pset' else Dom(0, INF)
        if k == 'uninit':
            return TOP
        return TOP

    def refine(self, t, d):
        """Meet the domain of term t with d.  False if it becomes empty."""
        t = self.canon(t)
        if is_const(t):
            return d.contains(t[1])
        cur = self.dom(t)
        n = cur.meet(d)
        if n.empty():
            return False
        if n != cur or t not in self.env:
            self.env[t] = n
        c = n.const()
        if c is not None and t[0] == 'cat':
            for i, b in enumerate(t[1]):
                if not self.refine(b, Dom((c >> (8 * i)) & 0xFF, (c >> (8 * i)) & 0xFF)):
                    return False
        elif t[0] == 'cat' and n.hi < (1 << (8 * (len(t[1]) - 1))):
            # high lanes forced to zero
            hi = int(n.hi)
            for i, b in enumerate(t[1]):
                if (hi >> (8 * i)) == 0:
                    if not self.refine(b, Dom(0, 0)):
                        return False
        if t[0] == 'add' and is_const(t[2]):
            self.refine(t[1], Dom(n.lo - t[2][1], n.hi - t[2][1]))
        if t[0] == 'sub' and is_const(t[2]):
            self.refine(t[1], Dom(n.lo + t[2][1], n.hi + t[2][1]))
        return True

    def consistent(self):
        """Re-check recorded knowledge after new equalities (used for per-value feasibility queries)."""
        for t, d in list(self.env.items()):
            c = self.canon(t)
            if is_const(c):
                if not d.contains(c[1]):
                    return False
            elif c != t:
                if self.dom(c).meet(d).empty():
                    return False
        for p in self._neq_canon():
            l = list(p)
            if len(l) < 2:
                return False
        for t, r in list(self.eq.items()):
            if t[0] in ('c', 'in', 'sym', 'pset', 'ptr'):
                continue
            saved = self.eq.pop(t)
            try:
                c1 = self._canon(t)
            finally:
                self.eq[t] = saved
            c2 = self._canon(r)
            if is_const(c1) and is_const(c2) and c1 != c2:
                return False
            if is_const(c2) and not is_const(c1) and not self.dom(c1).contains(c2[1]):
                return False
        for f in self.facts:
            k = f.k
            allc = True
            for a, c in f.co.items():
                ca = self.canon(a)
                if is_const(ca):
                    k += c * ca[1]
                else:
                    allc = False
                    break
            if allc and k > 0:
                return False
        return True

    # ---- linear facts
    def add_fact(self, lin):
        """lin <= 0"""
        if lin.is_const():
            return lin.k <= 0
        key = lin.key()
        for f in self.facts:
            if f.key() == key:
                return True
        self.facts.append(lin)
        return True

    def entails_le0(self, lin):
        """Is lin <= 0 implied by env + facts?"""
        if lin.is_const():
            return lin.k <= 0
        # interval check
        hi = lin.k
        for a, c in lin.co.items():
            d = self.dom(a)
            b = d.hi if c > 0 else d.lo
            if b in (INF, -INF):
                hi = INF
                break
            hi += c * b
        if hi <= 0:
            return True
        # Fourier-Motzkin: facts + atom bounds + (lin >= 1) infeasible?
        sys_ = []
        neg = lin.scale(-1)
        neg.k += 1            # -lin + 1 <= 0
        sys_.append(neg)
        atoms = set(lin.co)
        rel = []
        changed = True
        facts = list(self.facts)
        if self.eq:
            # a fact may speak of an atom the path has since learnt to equal another term (`cap == k_exit`): the queried
            # expression is canonical, so the facts are rewritten the same way
            for i, f in enumerate(facts):
                if any(a in self.eq for a in f.co):
                    try:
                        l = Lin({}, f.k)
                        for a, c in f.co.items():
                            r = self.canon(a) if a in self.eq else a
                            if r[0] in ('ptr', 'pset', 'fn'):
                                raise ValueError
                            l = l.add(lin_of(r), c)
                        if not l.is_const():
                            facts.append(l)
                    except Exception:
                        pass
        facts = facts + self._derived_facts(atoms)
        derived_for = set(atoms)
        used = set()
        while changed:
            changed = False
            for i, f in enumerate(facts):
                if i in used:
                    continue
                if any(a in atoms for a in f.co):
                    used.add(i)
                    rel.append(f)
                    n0 = len(atoms)
                    atoms.update(f.co)
                    if len(atoms) != n0:
                        newa = set(f.co) - derived_for
                        derived_for.update(newa)
                        facts.extend(self._derived_facts(newa))
                    changed = True
        if not rel:
            return False          # box constraints only: the interval bound above is exact
        sys_.extend(rel)
        for a in atoms:
            d = self.dom(a)
            if d.hi != INF:
                sys_.append(Lin({a: 1}, -d.hi))
            if d.lo != -INF:
                sys_.append(Lin({a: -1}, d.lo))
        return fm_infeasible(sys_)

    def _eq_lin_facts(self):
        """Equalities between linear compound terms held in the equality store (e.g. `(n + -1) == k`, learnt from
        `last = (i == n - 1)`) as linear facts; canon only rewrites the exact left-hand term."""
        out = []
        for t, r in list(self.eq.items()):
            if t[0] not in ('add', 'sub', 'mul', 'neg') or r[0] in ('ptr', 'pset', 'fn'):
                continue
            try:
                l = Lin({}, 0)
                lt = lin_of(t)
                l.k += lt.k
                for a, c in lt.co.items():
                    l = l.add(lin_of(self.canon(a)), c)
                l = l.add(lin_of(self.canon(r)), -1)
            except Exception:
                continue
            if not l.is_const() and len(l.co) <= 4:
                out.append(l)
        return out

    def _derived_facts(self, atoms):
        out = []
        if self.eq:
            for l in self._eq_lin_facts():
                if any(a in atoms for a in l.co):
                    out.append(l)
                    out.append(l.scale(-1))
        for a in list(atoms):
            if a[0] in ('div', 'mod') and is_const(a[2]) and a[2][1] > 0 and self.dom(a[1]).lo >= 0:
                c = a[2][1]
                d = ('div', a[1], a[2])
                m = ('mod', a[1], a[2])
                x = lin_of(a[1])
                # x == c*d + m
                e = Lin({d: c, m: 1}, 0).add(x, -1)
                out.append(e)
                out.append(e.scale(-1))
        return out

    def prove_le(self, a, b):
        return self.entails_le0(lin_of(self.canon(a)).add(lin_of(self.canon(b)), -1))

    def prove_lt(self, a, b):
        l = lin_of(self.canon(a)).add(lin_of(self.canon(b)), -1)
        l.k += 1
        return self.entails_le0(l)

    # ---- objects
    def new_obj(self, oid, kind, size, **kw):
        if oid in self.objs:
            # re-entered scope / allocation site reused: refresh
            pass
        o = Obj(oid, kind, size if isinstance(size, tuple) else C(size), **kw)
        self.objs[oid] = o
        return o

    def effect(self, e):
        self.trace = self.trace + (e,)

    # ---- identity for merging
    def pre_sig(self):
        """Cheap necessary condition for equal mem_sig."""
        n = 0
        for o in self.objs.values():
            if o.kind != 'str' and o.kind != 'global':
                n += 1
        return (self.trace, self.stack, n, tuple(len(f) for f in self.frames), len(self.tags))

    def raw_hash(self):
        """Cheap hash of the raw memory (collisions are resolved by raw_equal)."""
        h = 0
        for oid, o in self.objs.items():
            if o.kind == 'str' or (o.kind == 'global' and (o.ro or (not o.cells and o.default == 'unknown'))):
                continue
            h ^= hash((oid, o.live, o.default, o.cells.h, len(o.cells)))
        return h

    def raw_equal(self, o):
        if self.trace != o.trace or self.stack != o.stack or self.tags != o.tags or self.frames != o.frames:
            return False
        d = self.diff_objects(o)
        return d is not None and not d

    def rewrite_canon(self):
        """Replace every cell by its canonical form (needed before equalities are joined away)."""
        for o in self.objs.values():
            for k, (w, t) in list(o.cells.items()):
                if t[0] != 'c':
                    c = self.canon(t)
                    if c is not t:
                        o.cells[k] = (w, c)

    def mem_sig(self, raw=False, canon_state=None, bytewise=None):
        """Signature of memory.  raw: terms as stored.  Otherwise canonical terms; objects listed in
        `bytewise` (or all, if None) are expanded per byte so that cell granularity does not matter."""
        items = []
        canon = (lambda t: t) if raw else (canon_state or self).canon
        for oid, o in self.objs.items():
            if o.kind == 'str' or (o.kind == 'global' and (o.ro or (not o.cells and o.default == 'unknown'))):
                continue
            if raw:
                cs = frozenset((k, w, t) for k, (w, t) in o.cells.items())
            elif bytewise is not None and oid not in bytewise:
                cs = frozenset((k, w, t if t[0] == 'c' else canon(t)) for k, (w, t) in o.cells.items())
            else:
                ent = []
                for k, (w, t) in o.cells.items():
                    ct = t if t[0] == 'c' else canon(t)
                    if w == 1:
                        ent.append((k, ct if ct[0] != 'c' else C(ct[1] & 0xFF)))
                    else:
                        from .mem import mem_byte
                        for i in range(w):
                            ent.append(((k[0], k[1] + i), mem_byte(ct, i, w)))
                cs = frozenset(ent)
            items.append((oid, o.live, o.default, o.zeroed_n, cs))
        fr = tuple(frozenset(f.items()) for f in self.frames)
        return (frozenset(items), fr, self.trace, self.stack, frozenset(self.tags.items()))

    def diff_objects(self, o):
        """Object ids whose raw cells / status differ between self and o (None if object sets differ)."""
        out = []
        for oid, a in self.objs.items():
            if a.kind == 'str' or a.kind == 'global':
                continue
            b = o.objs.get(oid)
            if b is None:
                return None
            if a.live != b.live or a.default != b.default or a.zeroed_n != b.zeroed_n:
                return None
            if a.cells != b.cells:
                out.append(oid)
        for oid, b in o.objs.items():
            if b.kind not in ('str', 'global') and oid not in self.objs:
                return None
        return out

    def join_knowledge(self, o):
        """Keep only knowledge common to both states (memory is identical)."""
        env = {}
        for t in self.env:
            env[t] = self.dom(t).join(o.dom(t))
        for t in o.env:
            if t not in env:
                env[t] = o.dom(t).join(self.dom(t))
        for t in set(self.eq) | set(o.eq):
            if t not in env and self.canon(t) != o.canon(t):
                j = self.dom(t).join(o.dom(t))
                env[t] = j
        self.env = {t: d for t, d in env.items() if not (d.lo == -INF and d.hi == INF)}
        self.eq = {t: r for t, r in self.eq.items() if o.canon(t) == o.canon(r)}
        oc = o._neq_canon()
        self.neq = set(p for p in self._neq_canon() if p in oc or all_known_neq(o, p))
        ok = set(f.key() for f in o.facts)
        keep = [f for f in self.facts if f.key() in ok or o.entails_le0(f)]
        for f in o.facts:
            if f.key() not in set(g.key() for g in keep) and self.entails_le0(f):
                keep.append(f)
        self.facts = keep
        return self


_SPECIAL = {}


def has_special(t):
    """Does the term contain sel/selw/pset (whose canonical form depends on more than the equality store)?"""
    r = _SPECIAL.get(t)
    if r is None:
        k = t[0]
        if k in ('sel', 'selw', 'pset'):
            r = True
        elif k in ('c', 'in', 'sym', 'uninit', 'fn'):
            r = False
        else:
            r = False
            for x in t[1:]:
                if isinstance(x, tuple):
                    if x and isinstance(x[0], tuple):
                        if any(has_special(y) for y in x):
                            r = True
                            break
                    elif x and isinstance(x[0], str) and has_special(x):
                        r = True
                        break
        if len(_SPECIAL) < 2000000:
            _SPECIAL[t] = r
    return r


def all_known_neq(st, p):
    l = list(p)
    return len(l) == 2 and st.known_neq(l[0], l[1])
