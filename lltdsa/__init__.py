"""Repository-specific static analysis of d3vi1/LLTDResponder (see /verif/DESIGN.md)."""
