"""Engine assembly and entry-point runner."""
from .facts import AnalysisBroken, fn_params, fn_body
from .terms import C, ZERO, INF, short
from .state import State, Unsupported
from .absint import Val
from .absint_loops import LoopMachine
from .port import PortModel
from . import mem


class Engine(LoopMachine):
    pass


def new_state():
    st = State()
    st.frames.append({'#pre': 'L:<entry>.'})
    return st


def mk_obj(st, oid, size, kind='input', default='sym', **kw):
    return st.new_obj(oid, kind, size, default=default, **kw)


def ptr_to(oid, off=0):
    return ('ptr', oid, C(off))


def run_entry(prog, unit_path, fname, setup, port=None, summaries=None, tracked=(), engine=None, name=None, state=None):
    """Interpret function `fname` of unit `unit_path` from the abstract state built by setup(I, st) -> [Val args].
    Returns (engine, [(state, return Val)])."""
    ix = prog.unit(unit_path)
    ix, fn = prog.resolve(ix, fname)
    if fn is None:
        raise AnalysisBroken('anchor function %s not found in %s' % (fname, unit_path))
    I = engine or Engine(prog, port=port, summaries=summaries, entry_name=name or fname)
    I.entry_name = name or fname
    I.ix, I.fn = ix, '<entry>'
    I.tracked = tuple(tracked)
    st = state if state is not None else new_state()
    args = setup(I, st)
    rty = ix.parse_type(fn['type']['qualType']).ret
    try:
        outs = I.inline(st, ix, fn, args, fn, rty)
    except Unsupported as e:
        raise AnalysisBroken('engine cannot interpret %s: %s' % (fname, e))
    except RecursionError:
        raise AnalysisBroken('recursion limit in %s' % fname)
    return I, outs
